#!/bin/sh
# tools/seedmatrix.sh [tier]: re-confirm every kept seed in a scratch worktree of /repo (leaves /repo untouched) and refresh its meta.json
cd "$(dirname "$0")/.." || exit 2
tier=${1:-quick}
W=/tmp/seedrepo.$$
git -C /repo worktree add -q --detach "$W" HEAD || exit 2
for d in ${SEEDS:-seeded/*/}; do
  id=$(basename "$d" | cut -d- -f1)
  printf '%s: ' "$(basename "$d")"
  extra=""
  [ -f "$d/checks.txt" ] && extra="--checks $(cat "$d/checks.txt")"
  tools/seedtest.py "$d" "$id" --repo "$W" --tier "$tier" $extra 2>&1 | grep -v Warn | grep "^check\|PASSES\|FAIL rc\|does not apply" | cut -c1-160 | tr '\n' ' '
  echo
done
git -C /repo worktree remove --force "$W"
