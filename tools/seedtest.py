#!/venv/bin/python
"""Confirm a seeded change and run checks against it.

  tools/seedtest.py <seed dir with patch.diff, demo.py> <property id> [--tier quick] [--no-suite] [--checks C01,C05]

Steps: demo on clean tree (must pass) -> git apply in /repo -> test suite (must be 366 passed) -> demo (must fail)
-> ./check <id> (expected: exit 1 with VIOLATION) -> git checkout. Writes/updates meta.json in the seed dir.
"""
import argparse
import json
import os
import re
import subprocess
import sys
import time


def sh(cmd, timeout=3000, **kw):
    p = subprocess.run(cmd, shell=True, stdout=subprocess.PIPE, stderr=subprocess.STDOUT, universal_newlines=True,
                       timeout=timeout, **kw)
    return p.returncode, p.stdout


def main():
    ap = argparse.ArgumentParser()
    ap.add_argument('seed')
    ap.add_argument('pid')
    ap.add_argument('--tier', default='quick')
    ap.add_argument('--no-suite', action='store_true')
    ap.add_argument('--checks')
    ap.add_argument('--repo', default='/repo', help='tree to patch and test (a scratch worktree keeps /repo untouched)')
    a = ap.parse_args()
    seed = os.path.abspath(a.seed)
    patch = os.path.join(seed, 'patch.diff')
    demo = os.path.join(seed, 'demo.py')
    meta_p = os.path.join(seed, 'meta.json')
    meta = json.load(open(meta_p)) if os.path.exists(meta_p) else {}
    meta.setdefault('property', a.pid)
    R = os.path.abspath(a.repo)
    rc, out = sh('git -C %s status --porcelain' % R)
    if out.strip():
        print('repo not clean:', out)
        sys.exit(2)
    env = 'PYTHONPATH=%s PYTHONHASHSEED=0' % R
    rc, out = sh('cd /tmp && %s /venv/bin/python %s' % (env, demo), timeout=600)
    meta['demo_clean'] = 'pass' if rc == 0 else 'FAIL rc=%d' % rc
    print('demo on clean tree:', meta['demo_clean'])
    rc, out = sh('git -C %s apply %s' % (R, patch))
    if rc != 0:
        print('patch does not apply:', out)
        sys.exit(2)
    try:
        if not a.no_suite:
            rc, out = sh('cd %s && PYTHONPATH=%s /venv/bin/python -m pytest -q -p no:cacheprovider --timeout=900 yaql 2>&1 | tail -1' % (R, R))
            meta['suite_with_patch'] = out.strip()
            print('suite:', out.strip())
        rc, out = sh('cd /tmp && %s /venv/bin/python %s' % (env, demo), timeout=600)
        meta['demo_patched'] = 'fail (as intended)' if rc != 0 else 'PASSES (seed not effective)'
        print('demo with patch:', meta['demo_patched'])
        for pid in (a.checks.split(',') if a.checks else [a.pid]):
            t0 = time.time()
            rc, out = sh('cd /verif && VERIF_REPO=%s ./check %s --tier %s' % (R, pid, a.tier), timeout=7200)
            viol = [l for l in out.splitlines() if l.startswith('VIOLATION')]
            keys = [l.strip() for l in out.splitlines() if l.strip().startswith('key=')]
            res = {'exit': rc, 'violations': len(viol), 'first': keys[:2], 'wall_s': round(time.time() - t0, 1)}
            meta.setdefault('checks', {})['%s/%s' % (pid, a.tier)] = res
            print('check %s %s: exit=%d violations=%d %s' % (pid, a.tier, rc, len(viol), [k[:160] for k in keys[:2]]))
            if rc not in (0, 1):
                print(out[-1500:])
    finally:
        sh('git -C %s checkout -- . && git -C %s clean -fdq -- yaql' % (R, R))
    json.dump(meta, open(meta_p, 'w'), indent=1, sort_keys=True)


if __name__ == '__main__':
    main()
