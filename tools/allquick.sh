#!/bin/sh
# tools/allquick.sh <seed>...  : run every claimed check's quick tier under the given seeds; print one line per run
cd "$(dirname "$0")/.." || exit 2
for seed in "$@"; do
  for id in $(/venv/bin/python -c "import json;print(' '.join(c['property_id'] for c in json.load(open('MANIFEST.json'))['checks']))"); do
    start=$(date +%s)
    out=$(VERIF_SEED=$seed timeout 1500 ./check $id --tier quick 2>&1); rc=$?
    echo "seed=$seed $id rc=$rc $(($(date +%s)-start))s $(echo "$out" | grep -c '^VIOLATION') violations $(echo "$out" | grep '^  key=' | head -2 | cut -c1-200 | tr '\n' ' ')"
  done
done
