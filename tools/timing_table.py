#!/venv/bin/python
"""tools/timing_table.py <allquick log>: put the quick-tier wall times of the log into the last column of the DESIGN.md 9.1 table"""
import re, sys
times = {}
for line in open(sys.argv[1]):
    m = re.match(r'seed=\S+ (C\d\d) rc=0 (\d+)s', line)
    if m:
        times[m.group(1)] = m.group(2)
p = '/verif/DESIGN.md'
out = []
for line in open(p):
    m = re.match(r'^\| (C\d\d) \|.*\| (\d+) s \|\s*$', line)
    if m and m.group(1) in times:
        line = re.sub(r'\| \d+ s \|\s*$', '| %s s |\n' % times[m.group(1)], line)
    out.append(line)
open(p, 'w').write(''.join(out))
print(times)
