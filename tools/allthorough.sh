#!/bin/sh
# tools/allthorough.sh [ids...]: run thorough tiers one after another, one summary line each
cd "$(dirname "$0")/.." || exit 2
ids="$@"
[ -z "$ids" ] && ids=$(/venv/bin/python -c "import json;print(' '.join(c['property_id'] for c in json.load(open('MANIFEST.json'))['checks']))")
for id in $ids; do
  start=$(date +%s)
  out=$(timeout 3600 ./check $id --tier thorough 2>&1); rc=$?
  echo "$id thorough rc=$rc $(($(date +%s)-start))s $(echo "$out" | grep -c '^VIOLATION') violations $(echo "$out" | grep '^  key=' | head -2 | cut -c1-200 | tr '\n' ' ') $(echo "$out" | tail -1 | cut -c1-150)"
done
