#!/venv/bin/python
"""tools/keepseed.py /tmp/seedout/C01/m1 C01-m1 : copy a confirmed seed into /verif/seeded/<name>/ with meta.json"""
import json, os, shutil, sys
src, name = sys.argv[1], sys.argv[2]
dst = os.path.join('/verif/seeded', name)
os.makedirs(dst, exist_ok=True)
for f in ('patch.diff', 'demo.py'):
    shutil.copy(os.path.join(src, f), dst)
meta = json.load(open(os.path.join(src, 'meta.json')))
readme = open(os.path.join(src, 'README.txt')).read() if os.path.exists(os.path.join(src, 'README.txt')) else ''
meta['description_and_what_it_needs'] = readme.strip()
meta['ran'] = 'tools/seedtest.py: demo on clean tree, git apply, full test suite, demo, ./check, git checkout'
meta['source'] = 'independent sub-agent given only the property text and a scratch worktree'
json.dump(meta, open(os.path.join(dst, 'meta.json'), 'w'), indent=1, sort_keys=True)
print('kept', dst, meta.get('checks'))
