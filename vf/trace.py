"""Function-style trace validation: events -> NDJSON -> Trace_<Module>.tla -> rejected ids."""
import json
import os

from vf import tlc


def enc(v):
    """Python scalar/collection -> tagged ASCII JSON value (DESIGN App. A)."""
    import datetime
    if v is None:
        return ['n']
    if isinstance(v, bool):
        return ['b', 1 if v else 0]
    if isinstance(v, int):
        return enc_int(v)
    if isinstance(v, float):
        return ['f', repr(v)]
    if isinstance(v, str):
        return ['s', [ord(c) for c in v]]
    if isinstance(v, (list, tuple)):
        return ['l', [enc(x) for x in v]]
    if isinstance(v, dict):
        return ['d', [[enc(k), enc(x)] for k, x in v.items()]]
    if isinstance(v, (set, frozenset)):
        return ['S', [enc(x) for x in v]]
    if isinstance(v, BaseException):
        return ['e', type(v).__name__]
    return ['o', type(v).__name__]


def enc_int(n):
    sign = (n > 0) - (n < 0)
    n = abs(n)
    limbs = []
    while n:
        limbs.append(n % 10000)
        n //= 10000
    return ['i', sign, limbs]


CHUNK = 40000


def _one(wd, module, events, label, cfg_extra, timeout, env, heap, k):
    path = os.path.join(wd, '%s.%d.ndjson' % (label.replace('/', '_'), k))
    with open(path, 'w') as f:
        for e in events:
            f.write(json.dumps(e, sort_keys=True) + '\n')
    cfg = 'SPECIFICATION TraceSpec\nPOSTCONDITION TraceAccepted\nCHECK_DEADLOCK FALSE\n' + cfg_extra
    e2 = {'TRACE_FILE': path}
    e2.update(env or {})
    sub = os.path.join(wd, '%s-chunk%d' % (module, k))
    os.makedirs(sub, exist_ok=True)
    r = tlc.run(module, cfg, sub, env=e2, workers=1, timeout=timeout, heap=heap)
    consumed = r.distinct - 1
    if r.rc != 0 or consumed != len(events):
        raise tlc.TLCError('%s: rc=%s consumed %d of %d events\n%s' % (module, r.rc, consumed, len(events), r.out[-2500:]))
    os.remove(path)
    return r


def validate(rep, wd, module, events, label=None, cfg_extra='', timeout=3000, env=None, heap='8g', chunk=None):
    """events: list of dicts with an 'id'. Returns list of (id, clause). Raises on machinery failure.
    Trace specifications that judge every event on its own (all function-style ones) are validated in chunks by parallel
    TLC processes when the trace is long; the split does not change any verdict."""
    from concurrent.futures import ThreadPoolExecutor
    label = label or module
    ch = chunk or CHUNK
    chunks = [events[i:i + ch] for i in range(0, len(events), ch)] or [[]]
    if len(chunks) > 1:
        heap = '6g'
    with ThreadPoolExecutor(max_workers=6) as ex:
        results = list(ex.map(lambda kc: _one(wd, module, kc[1], label, cfg_extra, timeout, env, heap, kc[0]), enumerate(chunks)))
    rej = []
    for k, r in enumerate(results):
        rep.tlc(label if len(chunks) == 1 else '%s [chunk %d/%d]' % (label, k + 1, len(chunks)), r)
        rej.extend((x[1], x[2]) for x in r.printed('REJECT'))
    return rej
