"""Function-style trace validation: events -> NDJSON -> Trace_<Module>.tla -> rejected ids."""
import json
import os

from vf import tlc


def enc(v):
    """Python scalar/collection -> tagged ASCII JSON value (DESIGN App. A)."""
    import datetime
    if v is None:
        return ['n']
    if isinstance(v, bool):
        return ['b', 1 if v else 0]
    if isinstance(v, int):
        return enc_int(v)
    if isinstance(v, float):
        return ['f', repr(v)]
    if isinstance(v, str):
        return ['s', [ord(c) for c in v]]
    if isinstance(v, (list, tuple)):
        return ['l', [enc(x) for x in v]]
    if isinstance(v, dict):
        return ['d', [[enc(k), enc(x)] for k, x in v.items()]]
    if isinstance(v, (set, frozenset)):
        return ['S', [enc(x) for x in v]]
    if isinstance(v, BaseException):
        return ['e', type(v).__name__]
    return ['o', type(v).__name__]


def enc_int(n):
    sign = (n > 0) - (n < 0)
    n = abs(n)
    limbs = []
    while n:
        limbs.append(n % 10000)
        n //= 10000
    return ['i', sign, limbs]


def validate(rep, wd, module, events, label=None, cfg_extra='', timeout=3000, env=None, heap='8g'):
    """events: list of dicts with an 'id'. Returns list of (id, clause). Raises on machinery failure."""
    label = label or module
    path = os.path.join(wd, label.replace('/', '_') + '.ndjson')
    with open(path, 'w') as f:
        for e in events:
            f.write(json.dumps(e, sort_keys=True) + '\n')
    cfg = 'SPECIFICATION TraceSpec\nPOSTCONDITION TraceAccepted\nCHECK_DEADLOCK FALSE\n' + cfg_extra
    e2 = {'TRACE_FILE': path}
    e2.update(env or {})
    r = tlc.run(module, cfg, wd, env=e2, workers=1, timeout=timeout, heap=heap)
    rep.tlc(label, r)
    rej = [(x[1], x[2]) for x in r.printed('REJECT')]
    consumed = r.distinct - 1
    if r.rc != 0 or consumed != len(events):
        raise tlc.TLCError('%s: rc=%s consumed %d of %d events\n%s' % (module, r.rc, consumed, len(events), r.out[-2500:]))
    os.remove(path)
    return rej
