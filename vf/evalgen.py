"""ASTs for Eval.tla: rendering to yaql text, value projection, real evaluation with a tick probe."""
import json
import signal

from vf.props import c08


def jv(v):
    """python value -> JSON value for Eval.tla"""
    if v is None:
        return ['n']
    if v is True:
        return ['b', 1]
    if v is False:
        return ['b', 0]
    if isinstance(v, int):
        if abs(v) > 10 ** 9:
            return ['big']
        return ['i', v]
    if isinstance(v, float):
        return ['f', repr(v)]
    if isinstance(v, str):
        return ['s', v] if v.isascii() else ['s', v.encode('ascii', 'backslashreplace').decode()]
    if isinstance(v, (list, tuple)):
        return ['l', [jv(x) for x in v]]
    if isinstance(v, dict):
        return ['d', [[jv(k), jv(x)] for k, x in v.items()]]
    if isinstance(v, (set, frozenset)):
        return ['S', [jv(x) for x in v]]
    return ['o', type(v).__name__]


def c(v):
    return ['const', jv(v)]


def var(n=''):
    return ['var', n]


def lst(*es):
    return ['list', list(es)]


def mp(*kvs):
    return ['map', [list(kv) for kv in kvs]]


def idx(e, i):
    return ['idx', e, i]


def host():
    """the yaqlized probe object the harness binds to $h (opaque to the model)"""
    return ['host']


def idx2(e, i, d):
    """mapping[key, default]"""
    return ['idx2', e, i, d]


def bn(op, l, r):
    return ['bin', op, l, r]


def un(op, e):
    return ['un', op, e]


def call(f, *args, **kw):
    return ['call', f, list(args), [[k, v] for k, v in kw.items()]]


def mcall(recv, f, *args, **kw):
    return ['mcall', recv, f, list(args), [[k, v] for k, v in kw.items()]]


def attr(e, name):
    return ['attr', e, name]


def safeattr(e, name):
    return ['safeattr', e, name]


def safemcall(recv, f, *args):
    return ['safemcall', recv, f, list(args), []]


def kwd(t):
    return ['kwd', t]


def tick(i, e):
    return call('tick', c(i), e)


def pair(a, b):
    return ['pair', a, b]


def lit(jvv):
    t = jvv[0]
    if t == 'n':
        return 'null'
    if t == 'b':
        return 'true' if jvv[1] else 'false'
    if t == 'i':
        return str(jvv[1]) if jvv[1] >= 0 else '(%d)' % jvv[1]
    if t == 's':
        return "'" + jvv[1].replace('\\', '\\\\').replace("'", "\\'") + "'"
    if t == 'l':
        return '[' + ', '.join(lit(x) for x in jvv[1]) + ']'
    if t == 'd':
        return '{' + ', '.join('%s => %s' % (lit(k), lit(v)) for k, v in jvv[1]) + '}'
    if t == 'S':
        return 'set(' + ', '.join(lit(x) for x in jvv[1]) + ')'
    raise ValueError(jvv)


def render(e):
    k = e[0]
    if k == 'const':
        return lit(e[1])
    if k == 'kwd':
        return e[1]
    if k == 'var':
        return '$' + e[1]
    if k == 'list':
        return '[' + ', '.join(render(x) for x in e[1]) + ']'
    if k == 'map':
        return '{' + ', '.join('%s => %s' % (render(a), render(b)) for a, b in e[1]) + '}'
    if k == 'idx':
        return '%s[%s]' % (render(e[1]), render(e[2]))
    if k == 'idx2':
        return '%s[%s, %s]' % (render(e[1]), render(e[2]), render(e[3]))
    if k == 'host':
        return '$h'
    if k == 'bin':
        return '(%s %s %s)' % (render(e[2]), e[1], render(e[3]))
    if k == 'un':
        return '(%s %s)' % (e[1], render(e[2]))
    if k == 'pair':
        return '%s => %s' % (render(e[1]), e[2] if isinstance(e[2], str) else render(e[2]))
    if k == 'call':
        args = [render(a) for a in e[2]] + ['%s => %s' % (n, render(v)) for n, v in e[3]]
        return '%s(%s)' % (e[1], ', '.join(args))
    if k == 'mcall':
        args = [render(a) for a in e[3]] + ['%s => %s' % (n, render(v)) for n, v in e[4]]
        return '%s.%s(%s)' % (render(e[1]), e[2], ', '.join(args))
    if k == 'attr':
        return '%s.%s' % (render(e[1]), e[2])
    if k == 'safeattr':
        return '%s?.%s' % (render(e[1]), e[2])
    if k == 'safemcall':
        return '%s?.%s(%s)' % (render(e[1]), e[2], ', '.join(render(a) for a in e[3]))
    raise ValueError(k)


def tla_ast(e):
    """AST in the exact shape Eval.tla reads (pairs become 3-tuples, strings stay strings)"""
    k = e[0]
    if k in ('const', 'kwd', 'var'):
        return e
    if k == 'list':
        return ['list', [tla_ast(x) for x in e[1]]]
    if k == 'map':
        return ['map', [[tla_ast(a), tla_ast(b)] for a, b in e[1]]]
    if k == 'idx':
        return ['idx', tla_ast(e[1]), tla_ast(e[2])]
    if k == 'idx2':
        return ['idx2', tla_ast(e[1]), tla_ast(e[2]), tla_ast(e[3])]
    if k == 'host':
        return ['const', ['o', 'H']]
    if k == 'bin':
        return ['bin', e[1], tla_ast(e[2]), tla_ast(e[3])]
    if k == 'un':
        return ['un', e[1], tla_ast(e[2])]
    if k == 'pair':
        return ['pair', tla_ast(e[1]), e[2] if isinstance(e[2], str) else tla_ast(e[2])]
    if k == 'call':
        return ['call', e[1], [tla_ast(a) for a in e[2]], [[n, tla_ast(v)] for n, v in e[3]]]
    if k == 'mcall':
        return ['mcall', tla_ast(e[1]), e[2], [tla_ast(a) for a in e[3]], [[n, tla_ast(v)] for n, v in e[4]]]
    if k == 'attr':
        return ['attr', tla_ast(e[1]), e[2]]
    if k == 'safeattr':
        return ['safeattr', tla_ast(e[1]), e[2]]
    if k == 'safemcall':
        return ['safemcall', tla_ast(e[1]), e[2], [tla_ast(a) for a in e[3]], []]
    raise ValueError(k)


class Real(object):
    def __init__(self, options=None):
        import yaql
        self.engine = yaql.YaqlFactory().create(options=options or {})
        self.ctx = yaql.create_context()
        self.log = []

        def tick(i, v):
            self.log.append([i, jv(v) if v is None or isinstance(v, (bool, int)) else ['x']])
            return v
        self.ctx.register_function(tick, name='tick')
        self.tick = tick
        self.cache = {}

    def run(self, text, data, raw_context=None, timeout=3.0):
        # (the watchdog may fire between the evaluation and its own handlers: a second net around the whole call)
        try:
            r = self._run(text, data, raw_context, timeout)
            if r[0] == ['e', 'timeout'] and timeout < 30:
                # a busy machine can stall a 3 s watchdog: only a second, generous one counts
                r = self._run(text, data, raw_context, 45.0)
            return r
        except c08.Alarm:
            signal.setitimer(signal.ITIMER_REAL, 0)
            return ['e', 'timeout'], list(self.log)

    def _run(self, text, data, raw_context=None, timeout=3.0):
        st = self.cache.get(text)
        del self.log[:]
        signal.signal(signal.SIGALRM, c08._alarm)
        signal.setitimer(signal.ITIMER_REAL, timeout)
        try:
            if st is None:
                st = self.cache[text] = self.engine(text)
            c2 = self.ctx.create_child_context()
            if raw_context:
                for k, v in raw_context.items():
                    c2[k] = v
            v = st.evaluate(data=data, context=c2)
            return jv(v), list(self.log)
        except c08.Alarm:
            return ['e', 'timeout'], list(self.log)
        except Exception as e:  # noqa
            return ['e', type(e).__name__], list(self.log)
        finally:
            signal.setitimer(signal.ITIMER_REAL, 0)


def event(i, ast, data, res, log=None, eager=None, mode='value'):
    return {'id': i, 'ast': tla_ast(ast), 'data': jv(data), 'res': res, 'log': log or [], 'eager': eager or [], 'mode': mode}


CHUNK = 20000


def _validate_one(wd, events, label, k):
    import os
    from vf import tlc
    path = os.path.join(wd, '%s.%d.ndjson' % (label.replace('/', '_'), k))
    with open(path, 'w') as f:
        for e in events:
            f.write(json.dumps(e, sort_keys=True) + '\n')
    cfg = 'SPECIFICATION TraceSpec\nPOSTCONDITION TraceAccepted\nCHECK_DEADLOCK FALSE\n'
    sub = os.path.join(wd, 'chunk%d' % k)
    os.makedirs(sub, exist_ok=True)
    r = tlc.run('Trace_Eval', cfg, sub, env={'TRACE_FILE': path}, workers=1, timeout=3000, heap='6g')
    if r.rc != 0 or r.distinct - 1 != len(events):
        raise tlc.TLCError('Trace_Eval: rc=%s consumed %d of %d\n%s' % (r.rc, r.distinct - 1, len(events), r.out[-3000:]))
    os.remove(path)
    return r


def validate(rep, wd, events, label):
    """-> (rejects [(id, clause)], skipped {clause: count}); long traces are validated in chunks by parallel TLC processes
    (the trace specification judges every event on its own, so the split does not change any verdict)"""
    from concurrent.futures import ThreadPoolExecutor
    chunks = [events[i:i + CHUNK] for i in range(0, len(events), CHUNK)] or [[]]
    with ThreadPoolExecutor(max_workers=6) as ex:
        results = list(ex.map(lambda kc: _validate_one(wd, kc[1], label, kc[0]), enumerate(chunks)))
    rej = []
    skipped = {}
    skipped_ids = set()
    for k, r in enumerate(results):
        rep.tlc(label if len(chunks) == 1 else '%s [chunk %d/%d]' % (label, k + 1, len(chunks)), r)
        rej.extend((x[1], x[2]) for x in r.printed('REJECT'))
        for x in r.printed('SKIP'):
            skipped[x[2]] = skipped.get(x[2], 0) + 1
            skipped_ids.add(x[1])
    return rej, skipped, skipped_ids
