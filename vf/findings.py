"""known_findings.json: committed list of genuine defects that are recorded, not repaired."""
import fnmatch
import json
import os

VERIF = os.path.dirname(os.path.dirname(os.path.abspath(__file__)))


class Findings(object):
    def __init__(self, path=None):
        path = path or os.path.join(VERIF, 'known_findings.json')
        with open(path) as f:
            self.doc = json.load(f)

    def match(self, pid, key):
        for f in self.doc.get('known', []):
            if f['property'] == pid and fnmatch.fnmatchcase(key, f['key']):
                return f
        return None
