import argparse
import importlib
import os
import sys
import traceback


def main():
    ap = argparse.ArgumentParser()
    ap.add_argument('pid')
    ap.add_argument('--tier', default=os.environ.get('VERIF_TIER', 'quick'), choices=['quick', 'thorough'])
    ap.add_argument('--replay')
    ap.add_argument('--keep', action='store_true', help='keep .work directory')
    a = ap.parse_args()
    seed = int(os.environ.get('VERIF_SEED', '0') or 0)
    import yaql
    repo = os.path.abspath(os.environ.get('VERIF_REPO', '/repo'))
    if not os.path.abspath(yaql.__file__).startswith(repo + '/'):
        print('machinery failure: yaql imported from %s, not %s' % (yaql.__file__, repo))
        sys.exit(2)
    from vf import evidence, findings
    mod = importlib.import_module('vf.props.' + a.pid.lower())
    rep = evidence.Report(a.pid, a.tier, seed)
    try:
        if a.replay:
            rc = mod.replay(a.replay)
            sys.exit(rc)
        mod.run(rep, a.tier, seed, keep=a.keep)
    except Exception:
        _disarm()
        traceback.print_exc()
        print('machinery failure in %s' % a.pid)
        sys.exit(2)
    _disarm()
    try:
        rc = rep.finish(findings.Findings())
    except Exception:
        traceback.print_exc()
        print('machinery failure in %s (writing the evidence)' % a.pid)
        sys.exit(2)
    sys.exit(rc)


def _disarm():
    """no watchdog timer of the harness may fire once the check's own work is over"""
    import signal
    try:
        signal.setitimer(signal.ITIMER_REAL, 0)
        signal.signal(signal.SIGALRM, signal.SIG_IGN)
    except Exception:
        pass


if __name__ == '__main__':
    main()
