"""Run TLC jobs and parse their output."""
import os
import re
import shutil
import subprocess
import tempfile
import time

VERIF = os.path.dirname(os.path.dirname(os.path.abspath(__file__)))
SPECS = os.path.join(VERIF, 'specs')
JAR = '/opt/veriftools/tla/tla2tools.jar:/opt/veriftools/tla/CommunityModules-deps.jar'
WORK = os.path.join(VERIF, '.work')


class TLCError(Exception):
    pass


class TLCResult(object):
    def __init__(self):
        self.rc = None
        self.out = ''
        self.generated = 0
        self.distinct = 0
        self.depth = 0
        self.violated = []
        self.errors = []
        self.wall = 0.0
        self.coverage = {}

    def printed(self, tag=None):
        """Values printed by PrintT (tuples), optionally only those whose first element is "tag".
        TLC pretty-prints long values over several lines: collect until brackets balance."""
        from . import tlaval
        import re
        res = []
        buf = None
        depth = 0
        for line in self.out.splitlines():
            st = line.strip()
            if buf is None:
                if not st.startswith('<<'):
                    continue
                buf = []
                depth = 0
            buf.append(st)
            depth += st.count('<<') + st.count('[') + st.count('{') + st.count('(')
            depth -= st.count('>>') + st.count(']') + st.count('}') + st.count(')')
            if depth <= 0:
                txt = ' '.join(buf)
                buf = None
                if tag is not None and not re.match(r'<<\s*"%s"' % re.escape(tag), txt):
                    continue
                try:
                    res.append(tlaval.parse(txt))
                except ValueError:
                    pass
        return res


def workdir(prefix):
    os.makedirs(WORK, exist_ok=True)
    return tempfile.mkdtemp(prefix=prefix + '-', dir=WORK)


def cleanup(d):
    shutil.rmtree(d, ignore_errors=True)


def run(module, cfg, wd, modules=None, env=None, workers=16, flags=(), timeout=900,
        dump=None, simulate=None, depth=None, seed=None, deadlock=False, coverage=False,
        heap='8g', dfs=False):
    """module: root module name. If a text for it is given in `modules` it is written into wd,
    otherwise it is taken from SPECS. cfg: text of the .cfg file."""
    modules = modules or {}
    for name, text in modules.items():
        with open(os.path.join(wd, name + '.tla'), 'w') as f:
            f.write(text)
    if module in modules:
        root = os.path.join(wd, module + '.tla')
    else:
        root = os.path.join(SPECS, module + '.tla')
    cfgp = os.path.join(wd, module + '.cfg')
    with open(cfgp, 'w') as f:
        f.write(cfg)
    meta = os.path.join(wd, 'meta-' + module)
    shutil.rmtree(meta, ignore_errors=True)
    cmd = ['java', '-XX:+UseParallelGC', '-Xss512m', '-Xmx' + heap, '-DTLA-Library=' + SPECS + os.pathsep + wd]
    if dfs:
        cmd.append('-Dtlc2.tool.queue.IStateQueue=StateDeque')
    cmd += ['-cp', JAR, 'tlc2.TLC', '-config', cfgp, '-metadir', meta, '-noGenerateSpecTE',
            '-workers', str(workers)]
    if not deadlock:
        cmd.append('-deadlock')
    if coverage:
        cmd += ['-coverage', '1']
    if dump:
        cmd += ['-dump', dump]
    if simulate:
        cmd += ['-simulate', simulate]
    if depth:
        cmd += ['-depth', str(depth)]
    if seed is not None:
        cmd += ['-seed', str(seed)]
    cmd += list(flags)
    cmd.append(root)
    e = dict(os.environ)
    e.update(env or {})
    t0 = time.time()
    r = TLCResult()
    try:
        p = subprocess.run(cmd, cwd=wd, env=e, stdout=subprocess.PIPE, stderr=subprocess.STDOUT,
                           timeout=timeout, universal_newlines=True)
        r.rc = p.returncode
        r.out = p.stdout
    except subprocess.TimeoutExpired as ex:
        r.rc = -9
        r.out = (ex.stdout or b'').decode('utf8', 'replace') if isinstance(ex.stdout, bytes) else (ex.stdout or '')
        r.errors.append('timeout after %ss' % timeout)
    r.wall = time.time() - t0
    shutil.rmtree(meta, ignore_errors=True)
    m = None
    for m in re.finditer(r'(\d+) states generated, (\d+) distinct states found', r.out):
        pass
    if m:
        r.generated, r.distinct = int(m.group(1)), int(m.group(2))
    m = re.search(r'The depth of the complete state graph search is (\d+)', r.out)
    if m:
        r.depth = int(m.group(1))
    for m in re.finditer(r'Invariant (\S+) is violated', r.out):
        r.violated.append(m.group(1))
    for m in re.finditer(r'Action property (\S+) is violated', r.out):
        r.violated.append(m.group(1))
    if 'Temporal properties were violated' in r.out:
        r.violated.append('<temporal>')
    for m in re.finditer(r'^Error: (.*)$', r.out, re.M):
        r.errors.append(m.group(1))
    if coverage:
        for m in re.finditer(r'^<(\w+) line \d+, col \d+ to line \d+, col \d+ of module (\w+)>: (\d+):(\d+)', r.out, re.M):
            r.coverage[m.group(1)] = (int(m.group(3)), int(m.group(4)))
    return r


def ok(r, allow_violation=False):
    """Raise TLCError unless the job finished normally."""
    bad = [e for e in r.errors if not (allow_violation and ('is violated' in e or 'violated' in e))]
    if r.rc not in (0,) and not (allow_violation and r.rc in (12, 13)) or bad:
        if allow_violation and r.violated and r.rc in (12, 13):
            return r
        raise TLCError('TLC rc=%s errors=%s\n%s' % (r.rc, r.errors[:3], r.out[-3000:]))
    return r
