"""Regenerates /verif/MANIFEST.json from the table below (run: /venv/bin/python -m vf.manifest_gen)."""
import json
import os

VERIF = os.path.dirname(os.path.dirname(os.path.abspath(__file__)))

CHECKS = {
    'C17': dict(
        technique='TLA+ spec Contexts.tla: TLC model-checks ImplRefinesRef; TLC-enumerated API histories replayed into the '
                  'real context classes; recorded real histories validated by Trace_Contexts.tla',
        text='TLC proves on all forests of <=3-4 contexts that the three classes\' lookup algorithms equal the flattened-layers '
             'reading of the property; every API history up to the bound (with the reads the property demands) is replayed into '
             'the real classes, and long random real histories are validated event by event by the trace specification.',
        note='Trusted: the projection of real reads (Real.observe), FunctionDefinition identity as overload identity, TLC. '
             'Bounds: exhaustive for histories <=4 (quick) / <=5 (thorough) over <=4 contexts; beyond that random.',
        ref='3 C17'),
}

NOT_APPLICABLE = {
}

ALL = ['C%02d' % i for i in range(1, 21)]


def main():
    checks = []
    for pid in ALL:
        if pid not in CHECKS:
            continue
        c = CHECKS[pid]
        checks.append({
            'property_id': pid,
            'quick_cmd': './check %s --tier quick' % pid,
            'thorough_cmd': './check %s --tier thorough' % pid,
            'evidence_file': '/verif/evidence/%s.json' % pid,
            'replay_cmd_template': './check %s --replay {path}' % pid,
            'engine': 'tlc',
            'level_claimed': {'category': 'model_checking', 'text': c['text'], 'design_ref': 'DESIGN.md section ' + c['ref']},
            'level_note': c['note'],
            'technique': c['technique'],
        })
    na = []
    for pid in ALL:
        if pid not in CHECKS:
            na.append({'property_id': pid,
                       'reason': NOT_APPLICABLE.get(pid, 'not claimed yet: the TLA+ module and conformance harness for this '
                                                          'property are not built/validated at this commit (see DESIGN.md section 7)')})
    m = {
        'version': 1,
        'setup_cmd': 'true',
        'hooks': {
            'guard': 'YAQL_VERIF',
            'enable': 'no source hooks: recorders and scheduling gates are installed from the harness process by wrapping '
                      'at class/module level (ply.lex.Lexer.token, runner.call, Context mutators); ./check sets YAQL_VERIF=1',
            'baseline_off_cmd': 'cd /repo && /venv/bin/python -m pytest -ra -q -p no:cacheprovider --timeout=900 '
                                '--continue-on-collection-errors',
            'source_commits': [],
            'add_only': True,
        },
        'engines': [{'name': 'tlc', 'path': '/verif/specs', 'serves_properties': sorted(CHECKS),
                     'kind_free_text': 'explicit TLA+ specifications checked by TLC 1.8 (model checking, state-graph generation '
                                       'for replay into the implementation, trace validation of recorded executions)'}],
        'checks': checks,
        'not_applicable': na,
        'notes': 'Every check: ./check <id> --tier quick|thorough (cwd /verif). yaql is imported from /repo working tree '
                 '(PYTHONPATH=/repo). Known findings: /verif/known_findings.json.',
    }
    with open(os.path.join(VERIF, 'MANIFEST.json'), 'w') as f:
        json.dump(m, f, indent=1)
    print('MANIFEST.json: %d checks, %d not claimed' % (len(checks), len(na)))


if __name__ == '__main__':
    main()
