"""C02 - the operator table decides the parse tree.

M  Grammar.tla / MC_Grammar: for every generated operator/operand sequence the precedence-climbing machine accepts,
   its in-order yield is the input (YieldIsInput) and the tree obeys the declarative precedence/associativity laws of
   the table (TreeObeysTable) - for the default table, the legacy table and tables reached by InsertOperator.
G  every (table, token sequence, tree) state is replayed: the same insert_operator calls are applied to a real
   factory, the tokens are concretised (same-level symbol substitution, random whitespace), parsed, and the projected
   tree compared with the model's.
"""
import itertools
import json
import random

from vf import tlc, tlaval

SAME_LEVEL = [['.', '?.'], ['=~', '!~'], ['*', '/', 'mod'], ['+', '-'], ['>', '<', '>=', '<=', '!=', '=', 'in']]
ALIAS = {'!=': '*not_equal', '=': '*equal'}
ATOM = {'a': ['a', 'x1', '$v', '12', "'s'", 'true'], 'b': ['b', '$', '3'], 'c': ['c', 'null', '$c'], 'd': ['d', '7']}
WS = [' ', ' ', '  ', '\t', '\n', ' \r\n ']
NEW_SYMS = ['~', '**', '!']
TYPES = {'pre': 'PREFIX_UNARY', 'suf': 'SUFFIX_UNARY', 'binl': 'BINARY_LEFT_ASSOCIATIVE', 'binr': 'BINARY_RIGHT_ASSOCIATIVE'}


def mtree(t, sub):
    """model tree -> comparable projection (parentheses transparent); sub: symbol substitution"""
    k = t[0]
    if k == 'atom':
        return ('atom', t[1])
    if k == 'par':
        return mtree(t[1], sub)
    if k == 'bin':
        return ('bin', sub.get(('b', t[1]), t[1]), mtree(t[2], sub), mtree(t[3], sub))
    if k in ('pre', 'suf'):
        return ('un', sub.get(('u', t[1]), t[1]), mtree(t[2], sub))
    if k == 'idx':
        return ('idx', mtree(t[1], sub)) + tuple(mtree(a, sub) for a in t[2])
    if k == 'call':
        return ('call',) + tuple(mtree(a, sub) for a in t[1])
    if k == 'list':
        return ('list',) + tuple(mtree(a, sub) for a in t[1])
    if k == 'map':
        return ('map',) + tuple(mtree(a, sub) for a in t[1])
    if k == 'dcall':
        return ('dcall', mtree(t[1], sub)) + tuple(mtree(a, sub) for a in t[2])
    if k == 'empty':
        return ('empty',)
    if k == 'nv':
        return ('nv', mtree(t[1], sub), mtree(t[2], sub))
    raise ValueError(k)


def rtree(e, atoms):
    """real expression -> same projection. atoms: reverse map concrete atom text -> model atom"""
    from yaql.language import expressions as ex
    from yaql.language import utils as yutils
    if e is yutils.NO_VALUE:
        return ('empty',)
    if isinstance(e, ex.MappingRuleExpression):
        return ('nv', rtree(e.source, atoms), rtree(e.destination, atoms))
    if isinstance(e, ex.MapExpression):
        return ('map',) + tuple(rtree(a, atoms) for a in e.args)
    if isinstance(e, ex.Wrap):
        return rtree(e.expr, atoms)
    if isinstance(e, ex.BinaryOperator):
        return ('bin', _opname(e, '#operator_'), rtree(e.args[0], atoms), rtree(e.args[1], atoms))
    if isinstance(e, ex.UnaryOperator):
        return ('un', _opname(e, '#unary_operator_'), rtree(e.args[0], atoms))
    if isinstance(e, ex.IndexExpression):
        return ('idx',) + tuple(rtree(a, atoms) for a in e.args)
    if isinstance(e, ex.ListExpression):
        return ('list',) + tuple(rtree(a, atoms) for a in e.args)
    if isinstance(e, ex.GetContextValue):
        return ('atom', atoms.get('$' + e.path.value.lstrip('$') if e.path.value != '$' else '$', '?var'))
    if isinstance(e, ex.Constant):      # incl. KeywordConstant
        v = e.value
        txt = repr(v) if isinstance(v, str) and not isinstance(e, ex.KeywordConstant) else \
            ('true' if v is True else 'false' if v is False else 'null' if v is None else str(v))
        return ('atom', atoms.get(txt, '?' + txt))
    if isinstance(e, ex.Function) and e.name == '#call':
        return ('dcall',) + tuple(rtree(a, atoms) for a in e.args)
    if isinstance(e, ex.Function):
        return ('call',) + tuple(rtree(a, atoms) for a in e.args)
    return ('?', type(e).__name__)


def _opname(e, prefix):
    n = e.name
    if n.startswith(prefix):
        return n[len(prefix):]
    for k, v in ALIAS.items():
        if n == v:
            return k
    return n


def concretise(toks, rng, substitute):
    """-> text, symbol substitution map, atom reverse map"""
    sub = {}
    atoms = {}
    out = []
    amap = {}
    for i, t in enumerate(toks):
        if t in ATOM:
            if t not in amap:
                amap[t] = rng.choice([a for a in ATOM[t] if a not in atoms] or [t])
            c = amap[t]
            atoms[c] = t
            out.append(c)
        elif t == 'f(':
            out.append('foo(')
        elif t in ('(', ')', '[', ']', ',', '{', '}'):
            out.append(t)
        else:
            # operator symbol: binary if preceded by an operand end, else unary
            prev = toks[i - 1] if i else None
            binary = prev is not None and (prev in ATOM or prev in (')', ']', '}') or prev in ('!',) or (prev == '~' and False))
            role = 'b' if binary else 'u'
            c = t
            if substitute and binary:
                if (role, t) not in sub:
                    grp = [g for g in SAME_LEVEL if t in g]
                    sub[(role, t)] = rng.choice(grp[0]) if grp else t
                c = sub[(role, t)]
            out.append(c)
    txt = ''
    for i, c in enumerate(out):
        if i:
            p = out[i - 1]
            tight = (p in ('(', '[', '{') or c in (')', ']', ',', '}') or p.endswith('(')) and rng.random() < 0.5
            if not tight:
                txt += rng.choice(WS)
        txt += c
    if rng.random() < 0.3:
        txt = rng.choice(WS) + txt + rng.choice(WS)
    return txt, sub, atoms


def real_factory(base, calls):
    import yaql
    from yaql import legacy
    from yaql.language import factory
    f = legacy.YaqlFactory() if base == 'legacy' else yaql.YaqlFactory(allow_delegates=(base == 'delegates'))
    for (existing, ebin, new, typ, grp) in calls:
        f.insert_operator(existing or None, bool(ebin), new, getattr(factory.OperatorType, TYPES[typ]), bool(grp))
    return f


def insert_calls(tier, rng):
    one = []
    for existing in ['', '*', '+', '-', 'or', '->', 'not', '.', 'and', '<']:
        for ebin in (True, False):
            for new in NEW_SYMS:
                for typ in ('pre', 'suf', 'binl', 'binr'):
                    if new == '!' and typ != 'suf':
                        continue
                    if new == '**' and typ in ('pre', 'suf'):
                        continue
                    for grp in (True, False):
                        one.append(((existing, ebin, new, typ, grp),))
    if tier == 'quick':
        one = [c for i, c in enumerate(one) if i % 3 == 0]
    two = []
    for _ in range(12 if tier == 'quick' else 150):
        a, b = rng.choice(one)[0], rng.choice(one)[0]
        if a[2] != b[2]:
            two.append((a, b))
        # second call anchored on the operator the first call inserted
        a = rng.choice(one)[0]
        nb = rng.choice([s for s in NEW_SYMS if s != a[2]])
        tb = 'suf' if nb == '!' else rng.choice(['binl', 'binr'] if nb == '**' else ['pre', 'suf', 'binl', 'binr'])
        two.append((a, (a[2], a[3] in ('binl', 'binr'), nb, tb, rng.random() < 0.5)))
    return [()] + one + two


CFG = '''SPECIFICATION Spec
CONSTANTS
 Base = "%(base)s"
 InsertSeqs <- MCInsertSeqs
 BinReps = {%(bin)s}
 PreReps = {%(pre)s}
 SufReps = {%(suf)s}
 MaxBin = %(maxbin)d
 MaxPre = %(maxpre)d
 Kinds = {%(kinds)s}
 Mode = "%(mode)s"
INVARIANT YieldIsInput
INVARIANT TreeObeysTable
%(extra)s
'''


def q(xs):
    return ', '.join('"%s"' % x for x in xs)


def mc(calls_list):
    return ('---- MODULE MC_Grammar_cfg ----\nEXTENDS MC_Grammar\nMCInsertSeqs == %s\n====\n' %
            tlaval.to_tla(tuple(tuple(tuple(c) for c in calls) for calls in calls_list)))


def gen(wd, name, base, calls_list, binreps, prereps, sufreps, maxbin, maxpre, kinds, mode='trees', workers=16, timeout=3000):
    cfg = CFG % dict(base=base, bin=q(binreps), pre=q(prereps), suf=q(sufreps), maxbin=maxbin, maxpre=maxpre, kinds=q(kinds),
                     mode=mode, extra='INVARIANT Accepts' if mode == 'trees' else '')
    dump = wd + '/' + name
    r = tlc.ok(tlc.run('MC_Grammar_cfg', cfg, wd, modules={'MC_Grammar_cfg': mc(calls_list)}, workers=workers, dump=dump, timeout=timeout))
    return r, dump + '.dump'


class Engines(object):
    def __init__(self):
        self.cache = {}

    def get(self, base, calls):
        k = (base, calls)
        if k not in self.cache:
            try:
                f = real_factory(base, calls)
            except ValueError as e:
                self.cache[k] = ('notfound', e)
                return self.cache[k]
            try:
                self.cache[k] = ('ok', f.create())
            except Exception as e:  # noqa
                self.cache[k] = ('invalid' if type(e).__name__ == 'InvalidOperatorTableException' else 'error:' + type(e).__name__, e)
        return self.cache[k]


def replay_states(rep, dump, base, calls_list, engines, rng, label, nsub=1, keep_frac=1.0):
    n = 0
    nontriv = 0
    for st in tlaval.parse_dump(dump):
        calls = calls_list[st['tid'] - 1]
        if keep_frac < 1.0 and st['out']['st'] == 'ok' and len(st['toks']) > 3 and rng.random() > keep_frac:
            # sequences using an operator the insert_operator calls added are always replayed
            if not (set(c[2] for c in calls) & set(str(t) for t in st['toks'])):
                continue
        out = st['out']
        status = str(out['st'])
        kind, eng = engines.get(base, calls)
        if status != 'ok':
            if status == 'nonhomogeneous':
                continue
            n += 1
            if kind != status:
                rep.violation('C02/%s/table-status' % label, 'insert_operator calls %r on %s table: model %s, real %s (%r)' % (calls, base, status, kind, eng),
                              {'base': base, 'calls': calls})
            continue
        if kind != 'ok':
            rep.violation('C02/%s/table-status' % label, 'insert_operator calls %r on %s table: model ok, real %s (%r)' % (calls, base, kind, eng),
                          {'base': base, 'calls': calls})
            continue
        toks = [str(t) for t in st['toks']]
        if not out['ok']:
            continue
        for k in range(1 + nsub):
            text, sub, atoms = concretise(toks, rng, substitute=k > 0)
            want = mtree(out['t'], sub)
            try:
                got = rtree(eng(text).expression, atoms)
            except Exception as e:  # noqa
                got = ('raises', type(e).__name__, str(e)[:80])
            n += 1
            rep.evaluations += 1
            if got != want:
                rep.violation('C02/%s/tree' % label, '%r under %s table %r: real %r, table dictates %r' % (text, base, calls, got, want),
                              {'base': base, 'calls': calls, 'text': text})
        nops = sum(1 for t in toks if t not in ATOM and t not in ('(', ')', '[', ']', ',', 'f('))
        if nops >= 2:
            nontriv += 1
        if n % 3001 < 2:
            rep.sample({'table': base, 'inserts': calls, 'tokens': ' '.join(toks), 'tree': repr(mtree(out['t'], {}))})
    rep.traces += n
    rep.nontrivial += nontriv
    return n


def replay_args(rep, dump, base, engines, rng, label):
    """argument-list mode: the model's verdict (accepted with this tree / rejected) against the real parser for every sequence"""
    from yaql.language import exceptions as exc
    kind, eng = engines.get(base, ())
    n = acc = 0
    for st in tlaval.parse_dump(dump):
        toks = [str(t) for t in st['toks']]
        out = st['out']
        text, sub, atoms = concretise(toks, rng, substitute=False)
        want = mtree(out['t'], sub) if out['ok'] else ('rejected',)
        try:
            got = rtree(eng(text).expression, atoms)
        except exc.YaqlGrammarException:
            got = ('rejected',)
        except Exception as e:  # noqa
            got = ('raises', type(e).__name__, str(e)[:80])
        n += 1
        acc += 1 if out['ok'] else 0
        rep.evaluations += 1
        if got != want:
            rep.violation('C02/%s/arguments' % label, '%r under the %s table: real %r, the grammar of argument lists dictates %r' % (text, base, got, want),
                          {'base': base, 'calls': (), 'text': text})
        if n % 4001 == 1:
            rep.sample({'table': base, 'tokens': ' '.join(toks), 'verdict': repr(want)[:200]})
    rep.traces += n
    rep.nontrivial += acc
    return n, acc


def run(rep, tier, seed, keep=False):
    quick = tier == 'quick'
    wd = tlc.workdir('c02')
    try:
        rng = random.Random(seed * 48271 + 2)
        engines = Engines()
        kinds = ['atom', 'par', 'call', 'idx', 'list']
        reps_q = ['.', '=~', '*', 'mod', '+', '<', 'and', 'or', '->']
        reps_t = ['.', '?.', '=~', '!~', '*', '/', 'mod', '+', '-', '<', '>=', '=', 'in', 'and', 'or', '->']
        # default table
        # (TLC refuses to build sets of more than 10^6 elements: the thorough tier splits the space into several jobs)
        r, dump = gen(wd, 'std', 'standard', [()], reps_q if quick else reps_q + ['-'], ['-', 'not', '+'], [], 2 if quick else 3, 1,
                      kinds if quick else ['atom', 'par', 'idx'])
        rep.tlc('Grammar/G+M standard table', r)
        n1 = replay_states(rep, dump, 'standard', [()], engines, rng, 'standard', nsub=1, keep_frac=1.0 if quick else 0.5)
        r, dump = gen(wd, 'std2', 'standard', [()], ['.', '*', '+', '<', 'and', '->'] if quick else reps_t, ['-', 'not', '+'], [], 2, 2,
                      ['atom'] if quick else kinds)
        rep.tlc('Grammar/G+M standard table, two prefix operators', r)
        n1 += replay_states(rep, dump, 'standard', [()], engines, rng, 'standard', nsub=1, keep_frac=1.0 if quick else 0.5)
        if not quick:
            r, dump = gen(wd, 'std3', 'standard', [()], ['.', '*', '+', '<', 'and', 'or', '->', '=~'], ['-', 'not'], [], 3, 2, ['atom'])
            rep.tlc('Grammar/G+M standard table, 3 binary operators with two prefix operators', r)
            n1 += replay_states(rep, dump, 'standard', [()], engines, rng, 'standard', nsub=1, keep_frac=0.3)
        # legacy table
        r, dump = gen(wd, 'leg', 'legacy', [()], ['.', '*', '+', '<', 'and', 'or', '=>', '->'], ['-', 'not'], [], 2 if quick else 3, 1,
                      ['atom', 'par'] if quick else kinds)
        rep.tlc('Grammar/G+M legacy table', r)
        n2 = replay_states(rep, dump, 'legacy', [()], engines, rng, 'legacy', nsub=1)
        # argument lists: omitted positional arguments, named arguments, in calls / method calls / index / list / map forms
        r, dump = gen(wd, 'args', 'standard', [()], ['+'] if quick else ['+', '->'], ['-'], [], 4 if quick else 5, 0, ['atom'], mode='args')
        rep.tlc('Grammar/G+M argument lists, standard table', r)
        na, nacc = replay_args(rep, dump, 'standard', engines, rng, 'standard')
        r, dump = gen(wd, 'argsl', 'legacy', [()], ['+', '=>'], [], [], 3 if quick else 4, 0, ['atom'], mode='args')
        rep.tlc('Grammar/G+M argument lists, legacy table', r)
        nl, nlacc = replay_args(rep, dump, 'legacy', engines, rng, 'legacy')
        # every token sequence of length <= 3 over the whole token alphabet: accepted with the model's tree, or rejected
        r, dump = gen(wd, 'soup', 'standard', [()], [], [], [], 3, 0, ['atom'], mode='soup')
        rep.tlc('Grammar/G+M all token sequences <= 3, standard table', r)
        ns, nsacc = replay_args(rep, dump, 'standard', engines, rng, 'standard-soup')
        rep.extra['argument_lists'] = {'standard': na, 'standard_accepted': nacc, 'legacy': nl, 'legacy_accepted': nlacc, 'soup': ns, 'soup_accepted': nsacc}
        # engines created with allow_delegates: a value can be called; the parenthesis binds loosest
        r, dump = gen(wd, 'dsoup', 'delegates', [()], [], [], [], 3, 0, ['atom'], mode='soup')
        rep.tlc('Grammar/G+M all token sequences <= 3, delegates engine', r)
        nd, ndacc = replay_args(rep, dump, 'delegates', engines, rng, 'delegates-soup')
        r, dump = gen(wd, 'dargs', 'delegates', [()], ['+'] if quick else ['+', '->', '.'], ['-'], [], 3 if quick else 5, 0, ['atom'], mode='args')
        rep.tlc('Grammar/G+M argument lists of called values, delegates engine', r)
        nd2, nd2acc = replay_args(rep, dump, 'delegates', engines, rng, 'delegates')
        rep.extra['delegates'] = {'soup': nd, 'soup_accepted': ndacc, 'argument_lists': nd2, 'argument_lists_accepted': nd2acc}
        # customised tables
        calls_list = insert_calls(tier, rng)
        r, dump = gen(wd, 'cust', 'standard', calls_list, ['.', '*', '+', 'or', '->', '**', '~'], ['-', 'not', '~'], ['!', '~'], 2, 1,
                      ['atom'] if quick else ['atom', 'par'])
        rep.tlc('Grammar/G+M insert_operator tables', r)
        by_calls = {}
        for st in tlaval.parse_dump(dump):
            if st['out']['st'] == 'ok' and st['out']['ok'] and len(st['toks']) >= 3:
                by_calls.setdefault(calls_list[st['tid'] - 1], []).append(st)
        n3 = replay_states(rep, dump, 'standard', calls_list, engines, rng, 'custom', nsub=0, keep_frac=0.15 if quick else 0.35)
        # histories on ONE factory: create(), insert_operator(...), create() again ... every engine follows the table it was created from
        nhist = 0
        for calls in [c for c in calls_list if len(c) >= 1 and c in by_calls][:(25 if quick else 200)]:
            try:
                f = real_factory('standard', ())
                made = [((), f.create())]
                from yaql.language import factory as _factory
                for i, (existing, ebin, new, typ, grp) in enumerate(calls):
                    f.insert_operator(existing or None, bool(ebin), new, getattr(_factory.OperatorType, TYPES[typ]), bool(grp))
                    made.append((calls[:i + 1], f.create()))
            except Exception:
                continue
            for prefix, eng in made:
                for st in rng.sample(by_calls.get(prefix, []), min(12, len(by_calls.get(prefix, [])))):
                    toks = [str(t) for t in st['toks']]
                    text, sub, atoms = concretise(toks, rng, substitute=False)
                    want = mtree(st['out']['t'], sub)
                    try:
                        got = rtree(eng(text).expression, atoms)
                    except Exception as e:  # noqa
                        got = ('raises', type(e).__name__, str(e)[:80])
                    nhist += 1
                    rep.evaluations += 1
                    if got != want:
                        rep.violation('C02/factory-history/tree', 'factory history create();%s: engine created after %r parses %r as %r, its table dictates %r' % (
                            ''.join(' insert%r; create();' % (c,) for c in calls), prefix, text, got, want), {'base': 'standard', 'calls': calls, 'text': text})
        # several factories in one process: customising one must not leak into a factory created later (of any kind)
        from yaql import legacy as _legacy
        import yaql as _yaql
        from yaql.language import factory as _f2
        pristine = {'legacy': [st for st in tlaval.parse_dump(wd + '/leg.dump') if st['out']['st'] == 'ok' and st['out']['ok']],
                    'standard': [st for st in tlaval.parse_dump(wd + '/std.dump') if st['out']['st'] == 'ok' and st['out']['ok']]}
        mk = {'legacy': lambda: _legacy.YaqlFactory(), 'standard': lambda: _yaql.YaqlFactory(), 'nokw': lambda: _yaql.YaqlFactory(keyword_operator=None)}
        nleak = 0
        for first in ('legacy', 'nokw', 'standard'):
            try:
                a_ = mk[first]()
                a_.insert_operator('->', True, '<-', _f2.OperatorType.BINARY_RIGHT_ASSOCIATIVE, False)
                a_.insert_operator(None, True, '**', _f2.OperatorType.BINARY_LEFT_ASSOCIATIVE, True)
                a_.create()
            except Exception as e:  # noqa
                rep.violation('C02/factory-isolation/customised-factory', 'customising a fresh %s factory failed: %r' % (first, e), {'base': first, 'calls': (), 'text': ''})
                continue
            for second in ('legacy', 'standard'):
                try:
                    eng2 = mk[second]().create()
                except Exception as e:  # noqa
                    rep.violation('C02/factory-isolation/create', 'after customising a %s factory, a new %s factory cannot create an engine: %r' % (first, second, e),
                                  {'base': second, 'calls': (), 'text': ''})
                    continue
                for st in rng.sample(pristine[second], min(len(pristine[second]), 60 if quick else 600)):
                    toks = [str(t) for t in st['toks']]
                    text, sub, atoms = concretise(toks, rng, substitute=False)
                    want = mtree(st['out']['t'], sub)
                    try:
                        got = rtree(eng2(text).expression, atoms)
                    except Exception as e:  # noqa
                        got = ('raises', type(e).__name__, str(e)[:80])
                    nleak += 1
                    rep.evaluations += 1
                    if got != want:
                        rep.violation('C02/factory-isolation/tree', 'after customising a %s factory, a new %s factory parses %r as %r, its table dictates %r' % (
                            first, second, text, got, want), {'base': second, 'calls': (), 'text': text})
        rep.extra['factory_isolation_parses'] = nleak
        rep.extra['factory_history_parses'] = nhist
        rep.extra['replayed'] = {'standard': n1, 'legacy': n2, 'custom': n3, 'custom_tables': len(calls_list),
                                 'real_engines_built': len(engines.cache)}
        rep.exhaustive = True
        rep.rule = ('all sequences operand (binop operand)^k, k <= %d, binary operators from %d representatives (all levels, two per level '
                    'where the table has several), every placement of <= 2 prefix operators, <= 1 non-atomic operand (parenthesised, call, '
                    'index, list) and <= 1 suffix operator; tables: standard, legacy, %d insert_operator call sequences (homogeneous ones '
                    'replayed). Non-trivial = sequence with >= 2 operators.' % (2 if quick else 3, len(reps_q), len(calls_list)))
        rep.assumptions = ['tree projection (Wrap transparent) and token concretisation in vf/props/c02.py are trusted',
                           'same-level substitution uses the default table\'s groups']
    finally:
        if not keep:
            tlc.cleanup(wd)


def replay(path):
    doc = json.load(open(path))
    c = doc['case']
    print(doc['desc'])
    kind, eng = Engines().get(c['base'], tuple(tuple(x) for x in c['calls']))
    if kind == 'ok' and 'text' in c:
        print(rtree(eng(c['text']).expression, {}))
    return 1
