"""C05 - overload resolution follows the documented rules (also the engine of C06).

G  Resolution.tla computes, for every family of overloads (layers, kinds, hidden/default/*args
   parameters over a subtype lattice) and every call in the bounded call space, the outcome the
   documented rules prescribe.  Each (family, call) state of TLC's dump is replayed: the family is
   synthesised as real Python payloads registered in a real Context chain, the call is rendered to
   yaql text and evaluated; payload tag / exception class / argument evaluation counts are compared.
M  (C06) the pinned single-pass selection is order dependent (negative job), collect-then-pick is not.
"""
import itertools
import json
import os
import random

from vf import tlc, tlaval

TYPES = ['Any', 'A', 'B', 'C', 'D', 'Int', 'BC']
VALS = ['A', 'B', 'C', 'D', 'Int', 'Null']


def P(name, ty, d=False):
    return {'name': name, 'ty': ty, 'def': d}


def O(tag, params, fn=True, me=False, star='none', nokw=False, kwbad=False):
    return {'tag': tag, 'fn': fn, 'me': me, 'params': tuple(params), 'star': star, 'nokw': nokw, 'kwbad': kwbad}


def L(ovs, excl=False):
    return {'excl': excl, 'ovs': frozenset(tlaval.FrozenDict(o) for o in _freeze(ovs))}


def _freeze(ovs):
    out = []
    for o in ovs:
        o = dict(o)
        o['params'] = tuple(tlaval.FrozenDict(p) for p in o['params'])
        out.append(o)
    return out


H = P('h', 'hidden')

CURATED = [
    # the C06 family: D more specific than the incomparable B and C
    [L([O('d', [P('x', 'D')]), O('b', [P('x', 'B')]), O('c', [P('x', 'C')])])],
    [L([O('d', [P('x', 'D')], me=True), O('b', [P('x', 'B')], me=True), O('c', [P('x', 'C')], me=True)])],
    # two arities
    [L([O('one', [P('x', 'Any')]), O('two', [P('x', 'Any'), P('y', 'Any')])])],
    # override in a nearer layer, fall through when the near one does not fit
    [L([O('near', [P('x', 'B')])]), L([O('far', [P('x', 'A')])])],
    [L([O('near', [P('x', 'B')])], excl=True), L([O('far', [P('x', 'A')])])],
    # exclusive layer of the other kind hides outer functions
    [L([O('m', [P('x', 'A')], fn=False, me=True)], excl=True), L([O('f', [P('x', 'A')])])],
    [L([O('m', [P('x', 'A')], fn=False, me=True)]), L([O('f', [P('x', 'A')])])],
    # crossing specificity -> ambiguous
    [L([O('ba', [P('x', 'B'), P('y', 'A')]), O('ab', [P('x', 'A'), P('y', 'B')])])],
    # hidden parameter in every position
    [L([O('h0', [H, P('x', 'A'), P('y', 'Int', True)]), O('h1', [P('x', 'B'), H, P('y', 'Int', True)])])],
    [L([O('h2', [P('x', 'A'), P('y', 'Int'), H]), O('k', [P('x', 'A'), H, P('y', 'B')])])],
    # defaults and skipped slots
    [L([O('dflt', [P('x', 'A', True), P('y', 'Int', True)]), O('req', [P('x', 'A'), P('y', 'Int')])])],
    # *args
    [L([O('star', [P('x', 'A')], star='A'), O('two', [P('x', 'A'), P('y', 'B')])])],
    [L([O('starany', [], star='Any'), O('one', [P('x', 'D')])])],
    # extension methods and plain functions of one name
    [L([O('ext', [P('x', 'A'), P('y', 'Int', True)], fn=True, me=True), O('fun', [P('x', 'B')])])],
    # nullable
    [L([O('any', [P('x', 'Any')]), O('a', [P('x', 'A')])])],
    # three layers
    [L([O('l1', [P('x', 'D')])]), L([O('l2', [P('x', 'B')]), O('l2c', [P('x', 'C')])]), L([O('l3', [P('x', 'Any')])])],
    [L([O('l1', [P('x', 'Int')])]), L([O('l2', [P('x', 'B')])], excl=True), L([O('l3', [P('x', 'Any')])])],
    # no_kwargs functions: `a => b` arguments reach them as positional mapping values; a family mixing both kinds is ambiguous
    [L([O('nk', [P('x', 'Any')], nokw=True), O('nk2', [P('x', 'Any'), P('y', 'Any')], nokw=True)])],
    [L([O('nk', [P('x', 'Any')], nokw=True), O('kw', [P('x', 'A')])])],
    [L([O('nk', [P('x', 'B')], nokw=True)]), L([O('kw', [P('x', 'A'), P('y', 'Int', True)])])],
    [L([O('nkstar', [], star='Any', nokw=True)])],
    # keyword names differ between overloads
    [L([O('xy', [P('x', 'A'), P('y', 'A')]), O('yx', [P('y', 'A'), P('x', 'A')])])],
    # a keyword-only parameter whose default does not fit its declared type takes its overload out of every call
    [L([O('near', [P('x', 'A')], kwbad=True)]), L([O('far', [P('x', 'A')])])],
    [L([O('bad', [P('x', 'B')], kwbad=True), O('good', [P('x', 'A')])])],
    [L([O('bad', [P('x', 'A'), P('y', 'Int', True)], kwbad=True)])],
    # a parameter declared with a union of classes (like the library's Number): less specific than its members, more than their ancestors
    [L([O('u', [P('x', 'BC')]), O('a', [P('x', 'A')])])],
    [L([O('u', [P('x', 'BC')]), O('b', [P('x', 'B')])])],
    [L([O('u', [P('x', 'BC')]), O('any', [P('x', 'Any')]), O('d', [P('x', 'D')])])],
    [L([O('u', [P('x', 'BC'), P('y', 'Int')]), O('c', [P('x', 'C'), P('y', 'Any')])])],
    # indistinguishable overloads are ambiguous however exactly they fit the arguments; an exact fit does not hide the others
    [L([O('i1', [P('x', 'B')]), O('i2', [P('x', 'B')])])],
    [L([O('i1', [P('x', 'D'), P('y', 'Int')]), O('i2', [P('x', 'D'), P('y', 'Int')]), O('w', [P('x', 'A'), P('y', 'Any')])])],
    [L([O('ex', [P('x', 'D')]), O('in1', [P('x', 'B'), P('y', 'Any', True)]), O('in2', [P('x', 'C'), P('y', 'Any', True)])])],
    [L([O('ex', [P('x', 'Int'), P('y', 'D')]), O('xy', [P('x', 'Any'), P('y', 'D')]), O('yx', [P('x', 'Int'), P('y', 'Any')])])],
    # lazy parameters: overloads that survive the arity filter must agree on which arguments stay unevaluated
    [L([O('lz', [P('x', 'A'), P('y', 'Lazy')]), O('eg', [P('x', 'A'), P('y', 'Any')])])],
    [L([O('lz', [P('x', 'D'), P('y', 'Lazy')]), O('eg', [P('x', 'A'), P('y', 'Any')])])],
    [L([O('lz', [P('x', 'B'), P('y', 'Lazy')]), O('lz2', [P('x', 'A'), P('y', 'Lazy')])])],
    [L([O('lz', [P('x', 'Any'), P('y', 'Lazy')]), O('dd', [P('x', 'Any', True), P('y', 'Any', True)])])],
    [L([O('lz', [P('x', 'Any'), P('y', 'Lazy')])]), L([O('eg', [P('x', 'Any'), P('y', 'Int')])])],
    [L([O('lz', [P('x', 'Lazy')]), O('two', [P('x', 'A'), P('y', 'A')])])],
    [L([O('lzd', [P('x', 'A'), P('y', 'Lazy', True)]), O('eg', [P('x', 'B'), P('y', 'Int', True)])])],
    # an exclusive layer with several overloads hides the farther layers whichever of its overloads the registration marked
    [L([O('n1', [P('x', 'B')]), O('n2', [P('x', 'Int')])], excl=True), L([O('far', [P('x', 'Any')])])],
    [L([O('n1', [P('x', 'D')]), O('n2', [P('x', 'Int')]), O('n3', [P('x', 'A'), P('y', 'A')])], excl=True), L([O('far', [P('x', 'Any')]), O('far2', [P('x', 'Any'), P('y', 'Any', True)])])],
    [L([O('top', [P('x', 'Int')])]), L([O('n1', [P('x', 'B')], me=True), O('n2', [P('x', 'C')], me=True)], excl=True), L([O('far', [P('x', 'Any')], me=True)])],
]


def random_family(rng):
    nl = rng.choice([1, 1, 2, 2, 3])
    layers = []
    tagn = 0
    for li in range(nl):
        ovs = []
        for k in range(rng.choice([1, 2, 2, 3])):
            tagn += 1
            np_ = rng.choice([0, 1, 1, 2, 2])
            names = rng.sample(['x', 'y'], np_) if rng.random() < 0.3 else ['x', 'y'][:np_]
            params = []
            dflt = False
            for n in names:
                dflt = dflt or rng.random() < 0.3       # python: defaults only at the tail
                params.append(P(n, 'Lazy' if rng.random() < 0.12 else rng.choice(TYPES), dflt))
            if rng.random() < 0.35:
                params.insert(rng.randint(0, len(params)), H)
                # a hidden parameter after a defaulted one needs a default itself in Python; the harness gives it one
            star = rng.choice(TYPES) if rng.random() < 0.2 else 'none'
            kind = rng.choice(['f', 'f', 'm', 'e'])
            vis = [p for p in params if p['ty'] != 'hidden']
            if kind in 'me' and vis and vis[0]['ty'] == 'Lazy':
                vis[0]['ty'] = 'Any'         # the receiver of a method is always a value
            ovs.append(O('t%d' % tagn, params, fn=kind in 'fe', me=kind in 'me', star=star, nokw=rng.random() < 0.12, kwbad=rng.random() < 0.06))
        # a method needs a first visible parameter that is not *args-only
        ovs = [o for o in ovs if not (o['me'] and not [p for p in o['params'] if p['ty'] != 'hidden'])] or \
              [O('t%d' % tagn, [P('x', 'Any')])]
        layers.append(L(ovs, excl=rng.random() < 0.25))
    return layers


MC = '''---- MODULE MC_Resolution ----
EXTENDS Resolution
Families == %(families)s
Vals == {%(vals)s}
MaxArgs == %(maxargs)d
Slots == Vals \\cup {"skip"}
ArgSeqs == UNION {[1..k -> Slots] : k \\in 0..MaxArgs}
Recvs == {"none"} \\cup (Vals \\ {"Null"})
Kws == {<<>>} \\cup {<<<<n, v>>>> : n \\in {"x", "y"}, v \\in Vals} %(kw2)s
        \\cup {<<<<"kwo", v>>>> : v \\in {"Int", "B", "Null"}} \\cup {<<<<"y", v>>, <<"kwo", "Int">>>> : v \\in Vals}
Calls == {c \\in [recv : Recvs, args : ArgSeqs, kw : Kws] :
            /\\ (c.args # <<>> => c.args[Len(c.args)] # "skip")          \\* a trailing empty slot is a grammar error
            /\\ (c.kw # <<>> => \\A i \\in 1..Len(c.args) : c.args[i] # "skip")}
VARIABLES fam, call, out
Interesting(f, c) == \\E i \\in 1..Len(Families[f]) : \\E o \\in Families[f][i].ovs : KindOk(o, c) /\\ MapArgs(o, c).ok
Sampled(f, c) == (f * 7 + Len(c.args) * 3 + Len(c.kw)) %% %(mod)d = 0
\\* an empty slot that would fall into a *args region passes the NO_VALUE marker through to the payload: outside the fragment
HasSkip(c) == \\E i \\in 1..Len(c.args) : c.args[i] = "skip"
FamilyHasStar(f) == \\E i \\in 1..Len(Families[f]) : \\E o \\in Families[f][i].ovs : o.star # "none"
Init == /\\ fam \\in 1..Len(Families) /\\ call \\in Calls
        /\\ ~(HasSkip(call) /\\ FamilyHasStar(fam))
        /\\ (Interesting(fam, call) \\/ Sampled(fam, call))
        /\\ out = Resolve(Families[fam], call)
Next == UNCHANGED <<fam, call, out>>
Spec == Init /\\ [][Next]_<<fam, call, out>>

\\* ---- C06 on the model
LayerMatches(f, c) ==
    LET g == Gather(Families[f], c)
    IN {{o \\in g[i] : MapArgs(o, c).ok /\\ TypesFit(MapArgs(o, c))} : i \\in 1..Len(g)}
SinglePassOrderIndependent == MixedFlags(Families[fam], call) \\/
    \\A ms \\in LayerMatches(fam, call) : \\A p, q \\in Perms(ms) : SinglePass(p, call) = SinglePass(q, call)
CollectThenPickOrderIndependent == MixedFlags(Families[fam], call) \\/
    \\A ms \\in LayerMatches(fam, call) : \\A p, q \\in Perms(ms) : CollectThenPick(p, call) = CollectThenPick(q, call)
\\* and it is the documented rule: the layer decided by Resolve agrees with collect-then-pick on that layer
PickIsResolve ==
    (out.res \\in {"run", "Ambiguous"} /\\ ~MixedFlags(Families[fam], call)) =>
        \\E ms \\in LayerMatches(fam, call) : ms # {} /\\
            \\A p \\in Perms(ms) : CollectThenPick(p, call) = (IF out.res = "run" THEN out.tag ELSE "ambiguous")
====
'''


def mc_module(families, vals, maxargs, mod, kw2=False):
    kw2s = ''
    if kw2:
        kw2s = '\\cup {<<<<"x", v>>, <<"y", w>>>> : v, w \\in Vals}'
    return MC % dict(families=tlaval.to_tla(tuple(tuple(f) for f in families)), vals=', '.join('"%s"' % v for v in vals),
                     maxargs=maxargs, mod=mod, kw2=kw2s)


# ------------------------------------------------------------------ real side

class Lattice(object):
    def __init__(self):
        class A(object):
            pass

        class B(A):
            pass

        class C(A):
            pass

        class D(B, C):
            pass

        class E(B):
            pass

        class V(E, C):
            pass
        self.cls = {'A': A, 'B': B, 'C': C, 'D': D, 'Int': int, 'Any': object, 'BC': (B, C), 'E': E, 'V': V}
        self.val = {'A': A(), 'B': B(), 'C': C(), 'D': D(), 'Int': 7, 'Null': None, 'E': E(), 'V': V()}


LAT = None


def lattice():
    global LAT
    if LAT is None:
        LAT = Lattice()
    return LAT


_PAYLOADS = {}
_TAG_OF = {}


def build_fd(o, ran):
    """Synthesise a Python payload with the overload's signature and wrap it into a FunctionDefinition.
    Overloads with the same Python signature share ONE payload callable (they differ in declared types only); the payload
    learns which definition invoked it through a hidden FunctionDefinition parameter. An overload with a positional
    default also gets a keyword-only parameter with a default (never passed by the calls)."""
    from yaql.language import specs, yaqltypes
    lat = lattice()
    pnames = ['fd__']
    sig = ['fd__']
    seen_default = False
    for i, p in enumerate(o['params']):
        if p['ty'] == 'hidden':
            nm = 'hid%d' % i
            sig.append(nm + ('=None' if seen_default else ''))
        else:
            nm = p['name']
            if p['def']:
                seen_default = True
                sig.append('%s=%s' % (nm, 'None' if p['ty'] == 'Lazy' else '_DEF_' + p['ty']))
            elif seen_default:
                raise ValueError('non-default after default')
            else:
                sig.append(nm)
        pnames.append(nm)
    if o['star'] != 'none':
        sig.append('*rest')
    if seen_default or o.get('kwbad'):
        if o['star'] == 'none':
            sig.append('*')
        sig.append('kwo_=10' if not o.get('kwbad') else 'kwo_=None')
    key = ', '.join(sig)
    if key not in _PAYLOADS:
        env = {'_TAG_OF': _TAG_OF, '_RAN': []}
        for t in TYPES + ['E', 'V']:
            env['_DEF_' + t] = lat.val['A' if t == 'Any' else 'B' if t == 'BC' else t]
        src = 'def payload(%s):\n    _t = _TAG_OF[id(fd__)]\n    _t[1].append(_t[0])\n    return _t[0]\n' % key
        exec(src, env)
        _PAYLOADS[key] = env['payload']
    fn = _PAYLOADS[key]
    fd = specs.get_function_definition(fn, name='f', convention=None, function=bool(o['fn']), method=bool(o['me']),
                                       parameter_type_func=lambda n: _ptype(o, n, pnames, lat, yaqltypes))
    if o.get('nokw'):
        fd.no_kwargs = True
    if 'kwo_' in fd.parameters:
        # the keyword-only parameter is published under a name of its own (as a naming convention or
        # @specs.parameter(alias=...) does): callers write `kwo`, the Python parameter is kwo_
        fd.parameters['kwo_'].alias = 'kwo'
    _TAG_OF[id(fd)] = (o['tag'], ran)
    if KEEP_FDS[0]:
        _KEEP.append(fd)
    return fd


_KEEP = []
KEEP_FDS = [True]      # (the rebuilt-families part lets definitions die, so that their addresses are reused)


def _ptype(o, n, pnames, lat, yaqltypes):
    if n == 'fd__':
        return yaqltypes.FunctionDefinition()
    if n == 'kwo_':
        # (kwbad: the declared type refuses the parameter's own default)
        return yaqltypes.PythonType(int, nullable=False)
    if n == 'rest':
        return yaqltypes.PythonType(lat.cls[o['star']], nullable=o['star'] == 'Any')
    p = o['params'][pnames.index(n) - 1]
    if p['ty'] == 'hidden':
        return yaqltypes.Context()
    if p['ty'] == 'Lazy':
        return yaqltypes.Lambda()
    return yaqltypes.PythonType(lat.cls[p['ty']], nullable=p['ty'] == 'Any')


class OrderedContext(object):
    pass


def make_ordered_context_class():
    from yaql.language import contexts

    class Ordered(contexts.Context):
        """Context whose get_functions enumerates overloads in a caller-chosen order (C06)."""
        order = None      # dict name -> list of fds

        def get_functions(self, name, predicate=None, use_convention=False):
            fs, excl = super(Ordered, self).get_functions(name, predicate, use_convention)
            order = self.order or {}
            lst = sorted(fs, key=lambda fd: order.get(id(fd), 0))
            return lst, excl
    return Ordered


def build_chain(family, ran, perm_seed=None, root=None):
    """Register the family in a real context chain. Returns (innermost context, list of per-layer fds)."""
    import yaql
    from yaql.language import contexts
    Ordered = make_ordered_context_class()
    base = root if root is not None else yaql.create_context()
    ctxs = []
    parent = base
    layer_fds = []
    for layer in reversed(list(family)):          # farthest first
        c = Ordered(parent)
        ovs = sorted(layer['ovs'], key=lambda o: o['tag'])
        rng = random.Random(perm_seed) if perm_seed is not None else None
        creation = list(range(len(ovs)))
        if rng:
            rng.shuffle(creation)          # the definitions are also created in a shuffled order
        made = {}
        for j in creation:
            made[j] = build_fd(ovs[j], ran)
        fds = [(ovs[j]['tag'], made[j]) for j in range(len(ovs))]
        regorder = list(fds)
        if rng:
            rng.shuffle(regorder)
        first = True
        for tag, fd in regorder:
            c.register_function(fd, exclusive=bool(layer['excl']) and first)
            first = False
        c.order = {}
        ctxs.append(c)
        layer_fds.append(fds)
        parent = c
    return parent, list(reversed(ctxs)), list(reversed(layer_fds))


def build_multi_chain(family, ran, combo, root):
    """the family with every layer realised as a MultiContext: one member context per overload, members listed in the order
    combo[layer]; the first member carries the link to the farther layers"""
    from yaql.language import contexts
    parent = root
    fam = list(family)
    for li in range(len(fam) - 1, -1, -1):          # farthest first
        layer = fam[li]
        ovs = sorted(layer['ovs'], key=lambda o: o['tag'])
        members = []
        for pos, j in enumerate(combo[li]):
            m = contexts.Context(parent if pos == 0 else None)
            m.register_function(build_fd(ovs[j], ran), exclusive=bool(layer['excl']) and j == 0)
            members.append(m)
        parent = contexts.MultiContext(members) if members else contexts.Context(parent)
    return parent


def render_call(call):
    """call -> (text, number of probes). Every argument is wrapped in tick(k, $v<Val>)."""
    k = [0]

    def arg(v):
        k[0] += 1
        return 'tick(%d, $v%s)' % (k[0], v)
    parts = []
    recv = call['recv']
    rtxt = None
    if recv != 'none':
        rtxt = arg(recv)
    for a in call['args']:
        parts.append('' if a == 'skip' else arg(a))
    for n, v in call['kw']:
        parts.append('%s => %s' % (n, arg(v)))
    txt = 'f(%s)' % ', '.join(parts)
    if rtxt:
        txt = rtxt + '.' + txt
    return txt, k[0]


ERR = {
    'NoFunctionRegisteredException': 'Unknown', 'NoMethodRegisteredException': 'Unknown',
    'NoMatchingFunctionException': 'NoMatch', 'NoMatchingMethodException': 'NoMatch',
    'AmbiguousFunctionException': 'Ambiguous', 'AmbiguousMethodException': 'Ambiguous',
}


class Runner(object):
    def __init__(self):
        import yaql
        self.engine = yaql.YaqlFactory().create()
        self.root = yaql.create_context()
        self.ticks = []
        lat = lattice()

        def tick(k, v):
            self.ticks.append(k)
            return v
        self.root.register_function(tick, name='tick')
        for n, v in lat.val.items():
            self.root['v' + n] = v
        self.stmts = {}

    def run(self, chain_ctx, ran, call):
        txt, nprobe = render_call(call)
        st = self.stmts.get(txt)
        if st is None:
            st = self.stmts[txt] = self.engine(txt)
        del self.ticks[:]
        del ran[:]
        try:
            v = st.evaluate(context=chain_ctx.create_child_context())
            res = ('run', v)
        except Exception as e:  # noqa
            res = (ERR.get(type(e).__name__, 'other:' + type(e).__name__), '')
        return res, list(self.ticks), list(ran), txt, nprobe


def to_py_call(c):
    return {'recv': str(c['recv']), 'args': [str(a) for a in c['args']], 'kw': [(str(k[0]), str(k[1])) for k in c['kw']]}


def check_case(rep, runner, fam_cache, fi, family, call, out, label, orders=None):
    """Evaluate one (family, call) on the real code and compare with the spec's outcome.
    orders: None (registration order as is) or an iterable of per-layer permutations to force (C06)."""
    key = fi
    if key not in fam_cache:
        ran = []
        ctx, ctxs, layer_fds = build_chain(family, ran, root=runner.root)
        fam_cache[key] = (ctx, ctxs, layer_fds, ran)
    ctx, ctxs, layer_fds, ran = fam_cache[key]
    exp = (str(out['res']), str(out['tag']))
    results = []
    for order in (orders or [None]):
        if order is not None:
            for c, fds, perm in zip(ctxs, layer_fds, order):
                c.order = {id(fds[j][1]): pos for pos, j in enumerate(perm)}
        res, ticks, ran_, txt, nprobe = runner.run(ctx, ran, call)
        results.append((order, res, ticks, ran_))
        got = (res[0], res[1] if res[0] == 'run' else '')
        case = {'family': _fam_json(family), 'call': call, 'text': txt, 'order': order}
        if got != exp:
            rep.violation('%s/outcome/%s-vs-%s' % (label, exp[0], got[0]),
                          '%s with family %s: real %r, documented rules give %r (order %s)' % (txt, _fam_short(family), got, exp, order), case)
        # eager arguments: at most once each, exactly once when something ran or matching went past the arity filter
        # (families with lazy parameters: which arguments are evaluated is C11's business)
        if any(p['ty'] == 'Lazy' for layer in family for o in layer['ovs'] for p in o['params']):
            continue
        cnt = {}
        for t in ticks:
            cnt[t] = cnt.get(t, 0) + 1
        if any(v > 1 for v in cnt.values()):
            rep.violation('%s/args-evaluated-more-than-once' % label, '%s: tick log %s' % (txt, ticks), case)
        elif res[0] == 'run' and sorted(cnt) != list(range(1, nprobe + 1)):
            rep.violation('%s/args-not-evaluated' % label, '%s: tick log %s, %d probes' % (txt, ticks, nprobe), case)
        elif res[0] == 'run' and ticks != sorted(ticks):
            rep.violation('%s/args-out-of-order' % label, '%s: tick log %s' % (txt, ticks), case)
        elif got == exp and res[0] != 'run':
            # fidelity: the receiver is evaluated by the '.' operator before f is resolved; f's own arguments are
            # evaluated iff resolution got past the arity/keyword filter
            first = 2 if call['recv'] != 'none' else 1
            want = list(range(1, nprobe + 1)) if out['evald'] else list(range(1, first))
            if sorted(cnt) != want:
                rep.note('%s: spec evald=%s, real ticks=%s' % (txt, out['evald'], ticks))
        if res[0] == 'run' and ran_ != [res[1]]:
            rep.violation('%s/payloads-run' % label, '%s: payloads run %s, returned %r' % (txt, ran_, res[1]), case)
    if orders is not None:
        kinds = set((r[1][0], r[1][1] if r[1][0] == 'run' else '') for r in results)
        if len(kinds) > 1:
            rep.violation('%s/order-dependent' % label,
                          '%s with family %s: outcome depends on enumeration order: %s' % (
                              render_call(call)[0], _fam_short(family), sorted(kinds)),
                          {'family': _fam_json(family), 'call': call, 'orders': [r[0] for r in results]})
    return results


def _fam_json(family):
    return [{'excl': bool(l['excl']), 'ovs': [dict(o, params=[dict(p) for p in o['params']]) for o in sorted(l['ovs'], key=lambda o: o['tag'])]}
            for l in family]


def _fam_short(family):
    def ov(o):
        ps = ','.join(('%s:%s%s' % (p['name'], p['ty'], '=d' if p['def'] else '')) if p['ty'] != 'hidden' else '<ctx>' for p in o['params'])
        if o['star'] != 'none':
            ps += ',*' + o['star']
        if o.get('nokw'):
            ps += ';nokw'
        return '%s%s(%s)' % (o['tag'], {(True, False): '', (False, True): '[m]', (True, True): '[e]'}[(bool(o['fn']), bool(o['me']))], ps)
    return ' | '.join(('!' if l['excl'] else '') + '{' + ' '.join(ov(o) for o in sorted(l['ovs'], key=lambda o: o['tag'])) + '}' for l in family)


def families_for(tier, seed, c06=False):
    rng = random.Random(seed * 65537 + 5)
    n = (100 if tier == 'quick' else 1200) if not c06 else (40 if tier == 'quick' else 300)
    fams = list(CURATED)
    tries = 0
    while len(fams) < len(CURATED) + n and tries < 10000:
        tries += 1
        f = random_family(rng)
        try:
            for l in f:
                for o in l['ovs']:
                    build_fd(o, [])
        except Exception:
            continue
        fams.append(f)
    return fams


# families over the mixin classes E and V: specificity that is not transitive
MIXIN = [
    [L([O('f1', [P('x', 'B'), P('y', 'D')]), O('f2', [P('x', 'C'), P('y', 'B')]), O('f3', [P('x', 'E'), P('y', 'A')])])],
    [L([O('f1', [P('x', 'B'), P('y', 'D')]), O('f2', [P('x', 'C'), P('y', 'B')]), O('f3', [P('x', 'E'), P('y', 'A')]), O('top', [P('x', 'V'), P('y', 'D')])])],
    [L([O('f1', [P('x', 'B'), P('y', 'D')], me=True), O('f2', [P('x', 'C'), P('y', 'B')], me=True), O('f3', [P('x', 'E'), P('y', 'A')], me=True)])],
]


def gen(rep, wd, fams, tier, invs=(), name='G', vals=None):
    quick = tier == 'quick'
    vals = vals or (['B', 'C', 'D', 'Int', 'Null'] if quick else VALS)
    mod = mc_module(fams, vals, 2, 7 if quick else 5, kw2=not quick)
    cfg = 'SPECIFICATION Spec\n' + ''.join('INVARIANT %s\n' % i for i in invs)
    dump = os.path.join(wd, name)
    r = tlc.run('MC_Resolution', cfg, wd, modules={'MC_Resolution': mod}, workers=16, dump=dump, timeout=3000)
    return r, dump + '.dump'


def run(rep, tier, seed, keep=False, c06=False):
    wd = tlc.workdir('c06' if c06 else 'c05')
    label = 'C06' if c06 else 'C05'
    try:
        fams = families_for(tier, seed, c06)
        invs = ['CollectThenPickOrderIndependent', 'PickIsResolve']
        r, dump = gen(rep, wd, fams, tier, invs)
        tlc.ok(r)
        rep.tlc('Resolution/G families x calls (+M invariants)', r)
        if c06:
            # negative job: the pinned single-pass algorithm IS order dependent on the curated family
            r2, d2 = gen(rep, wd, CURATED[:2], tier, ['SinglePassOrderIndependent'], name='neg')
            if 'SinglePassOrderIndependent' not in r2.violated:
                raise tlc.TLCError('negative job: single pass not found order dependent\n' + r2.out[-1500:])
            rep.tlc('Resolution/M single-pass is order dependent (expected violation)', r2)
            if os.path.exists(d2):
                os.remove(d2)
        runner = Runner()
        n = 0
        multi = 0
        expect = []
        jobs = [(dump, fams, 0)]
        # a second, small job over the mixin classes (values V, D, B only): "more specific" is not transitive there
        r3, d3 = gen(rep, wd, MIXIN, tier, invs, name='mixin', vals=['V', 'D', 'B'])
        tlc.ok(r3)
        rep.tlc('Resolution/G mixin families x calls (+M invariants)', r3)
        jobs.append((d3, MIXIN, 100000))
        by_fam = {}
        for dump_, fams_, off in jobs:
          fam_cache = {}
          for st in tlaval.parse_dump(dump_):
            fi = st['fam']
            family = fams_[fi - 1]
            call = to_py_call(st['call'])
            out = st['out']
            orders = None
            if c06:
                # all permutations of every layer's enumeration order (capped), only when some layer has >= 2 candidates
                sizes = [len(l['ovs']) for l in family]
                if max(sizes) < 2 or out['res'] in ('Unknown',):
                    continue
                per_layer = [list(itertools.permutations(range(s))) for s in sizes]
                orders = list(itertools.islice(itertools.product(*per_layer), 12 if tier == 'quick' else 36))
                if off:
                    orders = list(itertools.islice(itertools.product(*per_layer), 24))      # (all 6 or 24 orders of the one layer)
            check_case(rep, runner, fam_cache, fi + off, family, call, out, label, orders)
            if c06 and not off:
                by_fam.setdefault(fi, []).append((call, (str(out['res']), str(out['tag']))))
            if c06 and not off and fi <= 3 and out['res'] in ('run', 'Ambiguous') and len(expect) < 40:
                expect.append((fi, call, (str(out['res']), str(out['tag']))))
            n += 1
            rep.evaluations += len(orders) if orders else 1
            if out['res'] in ('run', 'Ambiguous'):
                multi += 1
            if n % 2503 == 1:
                rep.sample({'family': _fam_short(family), 'call': render_call(call)[0], 'outcome': dict(out)})
        os.remove(d3)
        if c06:
            # the same families built again and again from fresh definitions (the old ones die and their addresses are reused),
            # overloads created and registered in rotating orders: the outcome belongs to the family and the call, not to the
            # history of the process
            import gc
            nreb = 0
            KEEP_FDS[0] = False
            try:
                for rnd in range(60 if tier == 'quick' else 300):
                    for fi, call, want in expect[:12]:
                        family = fams[fi - 1]
                        ran = []
                        ctx, ctxs, layer_fds = build_chain(family, ran, perm_seed=rnd * 31 + fi, root=runner.root)
                        res, ticks, ran_, txt, nprobe = runner.run(ctx, ran, call)
                        got = (res[0], res[1] if res[0] == 'run' else '')
                        nreb += 1
                        rep.evaluations += 1
                        if got != want:
                            rep.violation('C06/rebuilt-family/%s-vs-%s' % (want[0], got[0]), '%s with family %s built afresh (round %d): real %r, documented rules give %r' % (
                                txt, _fam_short(family), rnd, got, want), {'family': _fam_json(family), 'call': call, 'round': rnd})
                            break
                        del ctx, ctxs, layer_fds
                    gc.collect()
            finally:
                KEEP_FDS[0] = True
            rep.extra['rebuilt_family_calls'] = nreb
            # a layer may also be a MultiContext: the union of its members' overloads. Every overload of a layer lives in a member
            # context of its own; the members are listed in every order (capped): the outcome is the layer's, whatever the order
            nmc = 0
            cap_f = 30 if tier == 'quick' else 100
            def _prio(fi_):
                fam_ = fams[fi_ - 1]
                return (0 if any(l['excl'] and len(l['ovs']) >= 2 for l in fam_[:-1]) else 1, fi_)
            for fi in sorted(by_fam, key=_prio)[:cap_f]:
                family = fams[fi - 1]
                sizes = [len(l['ovs']) for l in family]
                per_layer = [list(itertools.permutations(range(sz))) for sz in sizes]
                combos = list(itertools.product(*per_layer))
                rng_m = random.Random(seed * 131 + fi)
                rng_m.shuffle(combos)
                cases_f = by_fam[fi]
                if len(cases_f) > (40 if tier == 'quick' else 150):
                    cases_f = rng_m.sample(cases_f, 40 if tier == 'quick' else 150)
                for combo in combos[:(6 if tier == 'quick' else 12)]:
                    ran = []
                    ctx = build_multi_chain(family, ran, combo, runner.root)
                    for call, want in cases_f:
                        res, ticks, ran_, txt, nprobe = runner.run(ctx, ran, call)
                        got = (res[0], res[1] if res[0] == 'run' else '')
                        nmc += 1
                        rep.evaluations += 1
                        if got != want:
                            rep.violation('C06/multi-context-layer/%s-vs-%s' % (want[0], got[0]),
                                          '%s with family %s, every layer a MultiContext with one member per overload, members listed in order %s: real %r, documented rules give %r' % (
                                              txt, _fam_short(family), list(combo), got, want), {'family': _fam_json(family), 'call': call, 'member_order': [list(c_) for c_ in combo]})
                            break
            rep.extra['multi_context_layer_calls'] = nmc
        os.remove(dump)
        rep.traces += n
        rep.nontrivial = multi
        rep.extra['families'] = len(fams)
        rep.extra['cases'] = n
        rep.exhaustive = True
        rep.rule = ('families: %d curated + seeded random (<=3 layers x <=3 overloads x <=2 visible params, hidden param, *args, kinds, '
                    'exclusivity); calls: every receiver x <=2 positional slots (incl. skipped) x <=1-2 keywords over the value lattice; '
                    'TLC keeps calls where some overload passes the arity filter plus a hash sample of the rest. Non-trivial = outcome run/'
                    'Ambiguous.' % len(CURATED))
        rep.assumptions = ['payload synthesis and call rendering (vf/props/c05.py) are trusted',
                           'fragment excludes **kwargs, keyword-only, lazy, constant-only parameters and no_kwargs functions']
    finally:
        if not keep:
            tlc.cleanup(wd)


def replay(path):
    doc = json.load(open(path))
    print(doc['desc'])
    return 1
