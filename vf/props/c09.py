"""C09 - evaluation has no side effects on host data, context or statement.

M  Purity.tla: under the ownership discipline host objects are unchanged and every evaluation observes what it observes
   alone (HostUnchanged, NonInterference), sequentially and concurrently; without it TLC exhibits the interference.
G  TLC enumerates the sequential histories (orders of evaluations); each is replayed as evaluations of pool statements on
   one shared parent context; the host chain is compared after every step and results with a fresh-context baseline.
V  every library function x every collection-typed parameter with mutable lists/dicts/sets as data, in both
   convertInputData modes, under write-event recorders: deep snapshots of data, alias test by scrambling the result,
   context-chain snapshots, re-evaluation; the recorded write events are validated by Trace_Purity.tla.
"""
import copy
import itertools
import json
import random
import signal

from vf import recorder, tlc, tlaval, trace
from vf.props import c08

POOL = [
    "let(x => 1, y => $) -> [$x, $y.len()]", "def(f, $ + 1) -> $.select(f($))", "with(1, 2) -> $1 + $2", "$.unpack(a, b, c) -> [$c, $b, $a]",
    "$.select($ * 2).toList()", "$.where($ > 1).len()", "$.orderBy($).thenByDescending(-$)", "$.orderByDescending($).first()", "$.memorize().select($).sum()",
    "$.toSet().union([7].toSet()).len()", "dict(a => $, b => $).set(c, 1)", "{a => $}.mergeWith({a => [9]})", "$.insert(1, 99)", "$.delete(0, 1)",
    "$.replace(0, 5)", "$.append(4, 5)", "$ + [4]", "$ * 2", "$.reverse()", "$.groupBy($ mod 2)", "$.zip($).toDict($[0], $[1])", "$.aggregate($1 + $2, 0)",
    "$.accumulate($1 + $2)", "regex('\\\\d').replaceBy('a1b2', str(int($.value) + $.len()))" if False else "regex('\\\\d').replaceBy('a1b2', '<' + $.value + '>')",
    "$.select(str($)).join(',')", "$.as($.len() => n) -> $n", "$.distinct().skip(1).take(5)", "[$, $].flatten()", "$.indexOf(2)", "$.splitWhere($ = 2)",
    "$.sliceWhere($ > 1)", "$.groupBy($ mod 2, $, $.sum())", "$.groupBy($ mod 2, $, [$[0], $[1].sum()])", "$.groupBy($ mod 2, aggregator => $.len())", "$.enumerate().select($[0] * $[1])", "$.join($, $1 = $2, [$1, $2]).len()", "let(d => {a => $}) -> $d.a.select($ + 1)",
]

MUTABLES = [[3, 1, 2, 1], {'b': 1, 'a': [1, 2]}, {'@c': 1, 'b': 2, 'a b': [3]}, [(1, ['r', 'g']), (2, ['b'])], {1, 2, 3}, [[1, 2], [3]], [{'k': 1, 'v': [1]}, {'k': 2, 'v': []}], [['a', 1], ['b', 2]], ['x', 'yy']]


def deep_eq(a, b):
    if type(a) is not type(b):
        return False
    if isinstance(a, dict):
        return list(a.keys()) == list(b.keys()) and all(deep_eq(a[k], b[k]) for k in a)
    if isinstance(a, (list, tuple)):
        return len(a) == len(b) and all(deep_eq(x, y) for x, y in zip(a, b))
    if isinstance(a, (set, frozenset)):
        return a == b
    if not isinstance(a, (int, float, str, bool, type(None))):
        return True          # opaque result objects (contexts, datetimes...): same type is all that is compared
    return a == b


def scramble(v, depth=0):
    """mutate every mutable container reachable from the result"""
    if depth > 6:
        return
    if isinstance(v, list):
        for x in list(v):
            scramble(x, depth + 1)
        v.append('SCRAMBLED')
        if len(v) > 1:
            v[0] = 'SCRAMBLED0'
    elif isinstance(v, dict):
        for x in list(v.values()):
            scramble(x, depth + 1)
        v['SCRAMBLED'] = 1
    elif isinstance(v, set):
        v.add('SCRAMBLED')
    elif isinstance(v, tuple):
        for x in v:
            scramble(x, depth + 1)


def snap_chain(ctx):
    out = []
    c = ctx
    while c is not None:
        data = getattr(c, '_data', None)
        fns = getattr(c, '_functions', None)
        if data is not None:
            out.append((id(c), tuple(sorted((k, id(v) if not isinstance(v, (int, str, type(None), bool, float)) else repr(v)) for k, v in data.items())),
                        tuple(sorted((n, tuple(sorted(id(f) for f in fs))) for n, fs in fns.items())), tuple(sorted(c._exclusive_funcs))))
        c = c.parent
    return out


def consume(v):
    """force lazy results (with convertOutputData the result is already plain)"""
    return v


def run(rep, tier, seed, keep=False):
    import yaql
    quick = tier == 'quick'
    wd = tlc.workdir('c09')
    rec = recorder.Recorder()
    try:
        rng = random.Random(seed * 8191 + 9)
        # ---------------- M
        def pjob(evals, steps, disc, seq, invs, allow=False, term=False):
            cfg = ('SPECIFICATION Spec\nCONSTANTS\n Evals = {%s}\n StepChoices <- MCSteps\n HostObjs = {"data", "ctx", "stmt"}\n Discipline = %s\n Sequential = %s\n' % (
                ', '.join(str(e) for e in evals), 'TRUE' if disc else 'FALSE', 'TRUE' if seq else 'FALSE') + ''.join('INVARIANT %s\n' % i for i in invs))
            if term:
                cfg += 'CONSTRAINT PrintTerminal\n'
            else:
                cfg += 'VIEW SchedView\n'
            mod = '---- MODULE MC_Purity ----\nEXTENDS Purity\nMCSteps == {%s}\n====\n' % tlaval.to_tla(tuple(steps))
            r = tlc.run('MC_Purity', cfg, wd, modules={'MC_Purity': mod}, workers=1 if term else 8)
            if not allow:
                tlc.ok(r)
            return r
        r = pjob([1, 2, 3], [3, 3, 3], True, True, ['HostUnchanged', 'NonInterference'])
        rep.tlc('Purity/M sequential histories, discipline', r)
        r = pjob([1, 2], [4, 4], True, False, ['HostUnchanged', 'NonInterference'])
        rep.tlc('Purity/M concurrent, discipline', r)
        r = pjob([1, 2], [3, 3], False, True, ['HostUnchanged', 'NonInterference'], allow=True)
        if not r.violated:
            raise tlc.TLCError('negative Purity job found no interference\n' + r.out[-1500:])
        rep.tlc('Purity/M without the discipline (expected violation: %s)' % r.violated[0], r)
        import sys, time
        _t0 = time.time()
        print('phase M done', file=sys.stderr)
        # ---------------- G: sequential histories on one shared parent context
        r = pjob([1, 2, 3], [2, 2, 2], True, True, [], term=True)
        rep.tlc('Purity/G orders of 3 evaluations', r)
        orders = []
        for t in r.printed('T'):
            o = []
            for e in t[1]:
                if e not in o:
                    o.append(e)
            orders.append(tuple(o))
        orders = sorted(set(orders))
        engine = yaql.YaqlFactory().create()
        engine_raw = yaql.YaqlFactory().create(options={'yaql.convertInputData': False})
        stmts = {}
        for eng_ in (engine, engine_raw):
            for t in POOL:
                stmts[(id(eng_), t)] = eng_(t)
        parent = yaql.create_context()
        parent['shared'] = [1, 2, 3]
        base_snap = snap_chain(parent)
        # a host may also assemble its context by hand (no '#finalize' / '#iter' in the chain): it must stay as it is, too
        hand = hand_context()
        hand['shared'] = [1, 2, 3]
        hand_snap = snap_chain(hand)
        datas = [[3, 1, 2], [1, 2, 3, 4], [2, 2, 5]]

        def baseline(eng_, t, d):
            try:
                return ('ok', eng_(t).evaluate(data=copy.deepcopy(d), context=yaql.create_context().create_child_context()))
            except Exception as e:  # noqa
                return ('exc', type(e).__name__)
        base = {}
        nh = 0
        triples = list(itertools.combinations(range(len(POOL)), 3))
        rng.shuffle(triples)
        for tri in triples[:60 if quick else 1500]:
            for order in orders:
                eng_ = rng.choice([engine, engine_raw])
                hist = []
                for e in order:
                    t = POOL[tri[e - 1]]
                    d = datas[e - 1]
                    d0 = copy.deepcopy(d)
                    try:
                        got = ('ok', stmts[(id(eng_), t)].evaluate(data=d, context=parent.create_child_context()))
                    except Exception as ex:  # noqa
                        got = ('exc', type(ex).__name__)
                    key = (id(eng_), t, repr(d0))
                    if key not in base:
                        base[key] = baseline(eng_, t, d0)
                    hist.append(t)
                    case = {'history': hist[:], 'data': d0, 'convertInputData': eng_ is engine}
                    if not (got[0] == base[key][0] and (got[0] == 'exc' and got[1] == base[key][1] or got[0] == 'ok' and deep_eq(got[1], base[key][1]))):
                        rep.violation('C09/history/result-depends-on-history', 'after history %r, %r on %r gives %r; alone it gives %r' % (hist[:-1], t, d0, got, base[key]), case)
                    if not deep_eq(d, d0):
                        rep.violation('C09/history/data-mutated', '%r changed its input data %r -> %r' % (t, d0, d), case)
                        datas[e - 1] = d0
                    if snap_chain(parent) != base_snap:
                        rep.violation('C09/history/host-context-changed', 'after %r the shared parent context chain differs' % (hist,), case)
                        base_snap = snap_chain(parent)
                    # the same statement on the hand-assembled context (evaluated directly on it and on a child)
                    for hc in (hand, hand.create_child_context()):
                        try:
                            stmts[(id(eng_), t)].evaluate(data=copy.deepcopy(d0), context=hc)
                        except Exception:
                            pass
                    hs = snap_chain(hand)
                    if [x[2:] for x in hs] != [x[2:] for x in hand_snap]:
                        rep.violation('C09/history/hand-built-context-changed', 'after %r the functions of a hand-assembled host context changed' % (hist,), case)
                        hand_snap = hs
                nh += 1
                rep.evaluations += 3
        # evaluations that pass no context at all: what one of them is given as data must not be there for the next one
        nnc = 0
        for conv in (True, False):
            eng0 = yaql.YaqlFactory().create(options={'yaql.convertInputData': conv})
            s_dollar, s_pair, s_len = eng0('$'), eng0('[$, 1]'), eng0('$.len()')
            case = {'history': 'evaluate() without context', 'convertInputData': conv}

            def ev(st, **kw):
                try:
                    return ('ok', st.evaluate(**kw))
                except Exception as ex:  # noqa
                    return ('exc', type(ex).__name__)
            first = ev(s_dollar)
            steps = [ev(s_pair, data={'secret': [1, 2, 3]}), ev(s_len, data=[1, 2]), ev(s_dollar), ev(yaql.YaqlFactory().create()('$'))]
            nnc += 5
            rep.evaluations += 5
            same = lambda a, b: a[0] == b[0] and (a[1] == b[1] if a[0] == 'exc' else deep_eq(a[1], b[1]))
            if not (same(steps[2], first) and same(steps[3], first)):
                rep.violation('C09/history/no-context-evaluation-left-data', 'evaluate() of `$` without data and context gives %r at first, %r (and %r on a fresh engine) after '
                              'other statements had been evaluated with documents' % (first, steps[2], steps[3]), case)
        rep.extra['no_context_evaluations'] = nnc
        rep.extra['histories_replayed'] = nh
        rep.sample({'history': [POOL[i] for i in triples[0]], 'orders': len(orders)})
        print('phase G done %.1f' % (time.time() - _t0), file=sys.stderr)
        # ---------------- V: sweep under recorders
        rec.install()
        nsweep = 0
        mutated = 0
        ntimeout = 0
        for conv, conv_out in ((True, True), (False, True), (True, False)):
            # (with output conversion off the result is what the evaluation built: it must still not be the host's own containers)
            eng_ = yaql.YaqlFactory().create(options={'yaql.convertInputData': conv, 'yaql.convertOutputData': conv_out})
            cx = yaql.create_context()
            chain0 = snap_chain(cx)
            # every parameter that accepts a sequence, a mapping or a set (mutable host data of any kind)
            cases, _ = c08.sweep_cases(cx, eng_, probes=[lambda: iter(()), lambda: {'a': 1}, lambda: [1], lambda: {1}])
            texts = set()
            for (name, fd, ti, pname, spec, generic) in cases:
                for mv in (MUTABLES[:6] if quick else MUTABLES):
                    try:
                        if not fd.parameters[pname].value_type.check(mv, cx, eng_) and not (isinstance(mv, (list, dict)) and conv):
                            continue
                    except Exception:
                        continue
                    # the other arguments: the typed corpus value, and values that name something the data really holds (a key, an
                    # element, an index) - functions that change "their copy" only do so when there is something to change
                    ps_ = c08.visible_params(fd)
                    # (a function with *args is also called with further arguments: values the data holds and values it does not)
                    for alt in (None, 'a', ['a', 'b'], 0, 1) + (('*',) if '*' in fd.parameters else ()):
                        star = alt == '*'
                        if star:
                            alt = None
                        data = {}
                        args = []
                        used_alt = False
                        for i, sp in enumerate(spec):
                            if sp[0] == 'src':
                                data['a%d' % i] = copy.deepcopy(mv)
                                args.append('$.a%d' % i)
                            elif sp[0] == 'text':
                                args.append(sp[1])
                            elif sp[0] == 'val':
                                v = sp[1]
                                if isinstance(v, list):
                                    v = [1, 2]
                                if alt is not None:
                                    try:
                                        if i < len(ps_) and ps_[i].value_type.check(alt, cx, eng_) and alt != v:
                                            v = alt
                                            used_alt = True
                                    except Exception:
                                        pass
                                data['a%d' % i] = copy.deepcopy(v)
                                args.append('$.a%d' % i)
                            else:
                                args.append(None)
                        if alt is not None and not used_alt:
                            continue
                        spec2 = [('text', a) if a is not None else ('omit',) for a in args]
                        text, _b = c08.render(name, fd, spec2)
                        if text is not None and star:
                            if not text.endswith(')'):
                                continue
                            text = text[:-1] + ('' if text.endswith('(') else ', ') + "1, 'a', 7)"
                        if text is None or (text, repr(data)) in texts:
                            continue
                        texts.add((text, repr(data)))
                        try:
                            st = eng_(text)
                        except Exception:
                            continue
                        d0 = copy.deepcopy(data)
                        hctx = cx.create_child_context()
                        rec.new_trace()
                        rec.begin(1, hctx)
                        signal.signal(signal.SIGALRM, c08._alarm)
                        signal.setitimer(signal.ITIMER_REAL, 2.0)
                        try:
                            got = ('ok', st.evaluate(data=data, context=hctx))
                        except c08.Alarm:
                            got = ('exc', 'timeout')
                        except Exception as ex:  # noqa
                            got = ('exc', type(ex).__name__)
                        finally:
                            signal.setitimer(signal.ITIMER_REAL, 0)
                        rec.end(1)
                        if got == ('exc', 'timeout'):
                            ntimeout += 1
                            continue
                        nsweep += 1
                        rep.evaluations += 1
                        case = {'text': text, 'data': repr(d0), 'convertInputData': conv, 'convertOutputData': conv_out}
                        if not deep_eq(data, d0):
                            mutated += 1
                            rep.violation('C09/data-mutated/%s' % name, '%s (convertInputData=%s) changed host data %r -> %r' % (text, conv, d0, data), case)
                            continue
                        if got[0] == 'ok':
                            scramble(got[1])
                            if not deep_eq(data, d0):
                                rep.violation('C09/result-aliases-host-data/%s' % name, '%s (convertInputData=%s): mutating the result changed host data %r -> %r' % (text, conv, d0, data), case)
                                continue
                            # re-evaluation with equal data gives an equal result
                            try:
                                got2 = ('ok', st.evaluate(data=copy.deepcopy(d0), context=cx.create_child_context()))
                                again = ('ok', st.evaluate(data=copy.deepcopy(d0), context=cx.create_child_context()))
                                if not deep_eq(got2[1], again[1]):
                                    rep.violation('C09/re-evaluation-differs/%s' % name, '%s: %r then %r' % (text, got2[1], again[1]), case)
                            except Exception:
                                pass
                        if snap_chain(cx) != chain0:
                            rep.violation('C09/host-context-changed/%s' % name, '%s changed the host context chain' % text, case)
                            chain0 = snap_chain(cx)
                        if nsweep % 97 == 1:
                            rep.sample({'text': text, 'data': repr(d0), 'convertInputData': conv, 'outcome': got[0]})
        print('phase sweep done %.1f, events %d' % (time.time() - _t0, len(rec.events)), file=sys.stderr)
        # the pool too (let/def/with/unpack/as write into their own child contexts)
        for conv in (True, False):
            eng_ = engine if conv else engine_raw
            cx = yaql.create_context()
            for t in POOL:
                d = [3, 1, 2]
                hctx = cx.create_child_context()
                st = eng_(t)
                rec.new_trace()
                rec.begin(1, hctx)
                try:
                    st.evaluate(data=d, context=hctx)
                except Exception:
                    pass
                rec.end(1)
                nsweep += 1
        rec.uninstall()
        rep.extra['sweep_evaluations'] = nsweep
        rep.extra['sweep_timeouts_skipped'] = ntimeout
        events = [dict(e, id=i) for i, e in enumerate(rec.events)]
        rej = validate_purity(rep, wd, events, 'Trace_Purity/V')
        for tr, seq, clause in rej[:20]:
            ev = [e for e in events if e['tr'] == tr and e['seq'] == seq][0]
            rep.violation('C09/discipline/%s/%s:%s' % (clause, ev['kind'], ev['name']), 'trace %d: evaluation wrote %s %r on object %d (%s)' % (
                tr, ev['kind'], ev['name'], ev['obj'], clause), {'event': ev})
        rep.traces += nh + nsweep
        rep.nontrivial = nsweep
        rep.extra['write_events_validated'] = len(events)
        rep.extra['traces_truncated_at_cap'] = len(rec.truncated)
        rep.rule = ('G: %d triples of a %d-statement pool x all orders on one shared parent context; V: every function x every collection-typed '
                    'parameter x %d mutable data shapes x 2 convertInputData modes under recorders. Non-trivial = sweep evaluations.' % (
                        60 if quick else 1500, len(POOL), len(MUTABLES)))
        rep.assumptions = ['deep snapshot comparison and the scramble routine are trusted', 'recorders wrap Context mutators and __setattr__ of shared classes']
    finally:
        if rec.active:
            rec.uninstall()
        if not keep:
            tlc.cleanup(wd)


def hand_context():
    """a context assembled by the host itself from the library's register() functions: no '#finalize' / '#iter' in the chain"""
    from yaql.language import contexts as _ctxs
    from yaql.standard_library import (boolean as _b, branching as _br, collections as _c, common as _cm, math as _m, queries as _q,
                                       regex as _r, strings as _s, system as _sy)
    hand = _ctxs.Context()
    for _mod in (_sy, _cm, _b, _s, _m, _c, _q, _r, _br):
        try:
            _mod.register(hand)
        except TypeError:
            _mod.register(hand, False)
    return hand


def validate_purity(rep, wd, events, label):
    import os
    path = os.path.join(wd, label.replace('/', '_') + '.ndjson')
    with open(path, 'w') as f:
        for e in events:
            f.write(json.dumps(e, sort_keys=True) + '\n')
    cfg = 'SPECIFICATION TraceSpec\nPOSTCONDITION TraceAccepted\nCHECK_DEADLOCK FALSE\n'
    r = tlc.run('Trace_Purity', cfg, wd, env={'TRACE_FILE': path}, workers=1, timeout=3000, heap='12g')
    rep.tlc(label, r)
    rej = [(x[1], x[2], x[3]) for x in r.printed('REJECT')]
    if r.rc != 0 or r.distinct - 1 != len(events):
        raise tlc.TLCError('Trace_Purity: rc=%s consumed %d of %d\n%s' % (r.rc, r.distinct - 1, len(events), r.out[-2000:]))
    os.remove(path)
    return rej


def replay(path):
    doc = json.load(open(path))
    print(doc['desc'])
    return 1
