"""C17 - context trees resolve variables and functions layer by layer.

M  TLC checks ImplRefinesRef on specs/Contexts.tla (the classes' algorithms = flattened layers).
G  TLC enumerates every API history up to a bound with the observations the property
   demands (variable obs); each history is replayed into the real classes and every read
   on every context is compared.
V  long random histories are executed on the real classes, recorded as NDJSON and
   validated by specs/Trace_Contexts.tla (every event re-executed by the spec's actions).
"""
import json
import os
import random
import shutil

from vf import tlc, tlaval

SPELL = {'$1': ['', '$', '$1', '1'], '$x': ['x', '$x'], '$y': ['y', '$y']}
CANON = {sp: c for c, sps in SPELL.items() for sp in sps}


def _mkfds(fnames, tags):
    from yaql.language import specs
    fds = {}
    for f in fnames:
        for t in tags:
            def payload(_t=t):
                return _t
            fd = specs.get_function_definition(payload, name=FSPELL[f][0] if f in FSPELL else f)
            fds[(f, t)] = fd
    return fds


# model function name -> spellings of one registered name: (as registered, use_convention?) - the contexts carry the camelCase
# convention, so the Python spelling looked up "by convention" is the same function
FSPELL = {'f': ('fX', [('fX', False), ('f_x', True), ('fX', True), ('fX_', False)]),
          'g': ('gLongName', [('gLongName', False), ('g_long_name', True), ('g_long_name_', True)])}


class Real(object):
    """The real classes driven by the spec's API actions."""

    def __init__(self, fnames, tags):
        self.objs = {}
        self.fnames = list(fnames)
        self.tags = list(tags)
        self.fds = _mkfds(fnames, tags)
        self.tagof = {id(fd): t for (f, t), fd in self.fds.items()}
        self.nnodes = 0

    def apply(self, e):
        from yaql.language import contexts
        op = e['op']
        err = 'ok'
        try:
            from yaql.language import conventions
            if op == 'NewContext':
                self.objs[e['new']] = contexts.Context(self.objs.get(e['c']), convention=conventions.CamelCaseConvention())
            elif op == 'NewMulti':
                self.objs[e['new']] = contexts.MultiContext([self.objs[m] for m in e['ms']], convention=conventions.CamelCaseConvention())
            elif op == 'NewLinked':
                self.objs[e['new']] = contexts.LinkedContext(self.objs.get(e['c']), self.objs[e['l']], convention=conventions.CamelCaseConvention())
            elif op == 'Child':
                try:
                    ch = self.objs[e['c']].create_child_context()
                except Exception as ex:  # any failure = no child
                    return 'ChildError'
                self.objs[e['new']] = ch
            elif op == 'Set':
                self.objs[e['c']][e['name']] = None if e['v'] == 'null' else e['v']
            elif op == 'Del':
                try:
                    del self.objs[e['c']][e['name']]
                except KeyError:
                    err = 'KeyError'
            elif op == 'Register':
                self.objs[e['c']].register_function(self.fds[(e['f'], e['t'])], exclusive=bool(e['x']))
            elif op == 'DeleteFunction':
                self.objs[e['c']].delete_function(self.fds[(e['f'], e['t'])])
            else:
                raise ValueError(op)
        except Exception as ex:
            return 'Exception:' + type(ex).__name__
        return err

    def keeps(self):
        ks = [frozenset(self.tags)] + [frozenset([t]) for t in self.tags]
        return ks

    def observe(self, names):
        """All reads on all declared contexts, in the spec's shape.
        A read that raises is recorded as the string 'raise:<Exc>' in its slot."""
        out = {}
        for cid, c in self.objs.items():
            o = {'get': {}, 'has': set(), 'keys': None, 'funcs': {}, 'collect': {}}
            for n in names:
                vals = set()
                hass = set()
                for sp in SPELL[n]:
                    try:
                        v = c[sp]
                        vals.add('null' if v is None else v)
                    except Exception as ex:
                        vals.add('raise:' + type(ex).__name__)
                    try:
                        hass.add(sp in c)
                    except Exception as ex:
                        hass.add('raise:' + type(ex).__name__)
                o['get'][n] = vals.pop() if len(vals) == 1 else 'spellings-disagree:%s' % sorted(vals)
                if hass == {True}:
                    o['has'].add(n)
                elif hass != {False}:
                    o['has'].add('spellings-disagree:' + n)
            try:
                o['keys'] = set(c.keys())
            except Exception as ex:
                o['keys'] = 'raise:' + type(ex).__name__
            for f in self.fnames:
                o['funcs'][f] = {}
                o['collect'][f] = {}
                for k in self.keeps():
                    got_f = set()
                    got_c = set()
                    for nm, conv in (FSPELL[f][1] if f in FSPELL else [(f, False)]):
                        try:
                            fs, ex_ = c.get_functions(nm, lambda fd, _k=k: self.tagof[id(fd)] in _k, use_convention=conv)
                            got_f.add((frozenset(self.tagof[id(x)] for x in fs), bool(ex_)))
                        except Exception as ex:
                            got_f.add('raise:' + type(ex).__name__)
                        try:
                            ls = c.collect_functions(nm, lambda fd, ctx, _k=k: self.tagof[id(fd)] in _k, use_convention=conv)
                            got_c.add(tuple(frozenset(self.tagof[id(x)] for x in layer) for layer in ls))
                        except Exception as ex:
                            got_c.add('raise:' + type(ex).__name__)
                    o['funcs'][f][k] = got_f.pop() if len(got_f) == 1 else 'spellings-disagree:%s' % sorted(map(repr, got_f))
                    o['collect'][f][k] = got_c.pop() if len(got_c) == 1 else 'spellings-disagree:%s' % sorted(map(repr, got_c))
            out[cid] = o
        return out


def _norm_obs(v):
    """TLC prints a function with domain 1..n as a tuple; normalise to dict keyed by id."""
    if isinstance(v, tuple):
        return {i + 1: x for i, x in enumerate(v)}
    return dict(v)


def _expected(obs):
    exp = {}
    for cid, o in _norm_obs(obs).items():
        exp[cid] = {
            'get': dict(o['get']), 'has': set(o['has']), 'keys': set(o['keys']),
            'funcs': {f: {k: (frozenset(v[0]), v[1]) for k, v in d.items()} for f, d in o['funcs'].items()},
            'collect': {f: {k: tuple(frozenset(x) for x in v) for k, v in d.items()} for f, d in o['collect'].items()},
        }
    return exp


def diff_obs(real, exp):
    for cid in sorted(exp):
        if cid not in real:
            return 'context %s missing' % cid
        for field in ('get', 'has', 'keys', 'funcs', 'collect'):
            if real[cid][field] != exp[cid][field]:
                return 'ctx %s %s: real=%r spec=%r' % (cid, field, real[cid][field], exp[cid][field])
    return None


def replay_history(hist, names, fnames, tags, exp_err=None, exp_obs=None, per_step=None):
    r = Real(fnames, tags)
    err = 'ok'
    for i, e in enumerate(hist):
        err = r.apply(e)
        if per_step is not None:
            per_step(i, e, err, r)
    res = {'err': err}
    if exp_err is not None and err != exp_err:
        return 'outcome of %s: real=%s spec=%s' % (hist[-1]['op'], err, exp_err)
    if exp_obs is not None:
        return diff_obs(r.observe(names), exp_obs)
    return None


CFG = '''SPECIFICATION Spec
CONSTANTS
 MaxCtx = %(maxctx)d
 Spellings = {%(spell)s}
 Values = {%(values)s}
 FNames = {%(fnames)s}
 Tags = {%(tags)s}
 MaxMembers = %(maxmem)d
 MaxHist = %(maxhist)d
 FixedChild = TRUE
INVARIANT ImplRefinesRef
INVARIANT WellFormed
INVARIANT ChildAlwaysPossible
%(view)s
'''


def q(xs):
    return ', '.join('"%s"' % x for x in xs)


def cfg(maxctx, spell, values, fnames, tags, maxmem, maxhist, view=False):
    return CFG % dict(maxctx=maxctx, spell=q(spell), values=q(values), fnames=q(fnames), tags=q(tags),
                      maxmem=maxmem, maxhist=maxhist, view='VIEW HistView' if view else '')


def hist_list(h):
    return [dict(e, ms=list(e['ms'])) for e in h]


def check_states(rep, states, names, fnames, tags, label):
    n = 0
    for st in states:
        hist = hist_list(st['hist'])
        if not hist:
            continue
        n += 1
        exp = _expected(st['obs'])
        d = replay_history(hist, names, fnames, tags, exp_err=st['err'], exp_obs=exp)
        rep.evaluations += 1
        kinds = set(e['op'] for e in hist)
        if ('NewMulti' in kinds or 'NewLinked' in kinds) and (kinds & {'Set', 'Register', 'Del', 'DeleteFunction'}):
            rep.nontrivial += 1
        if n % 997 == 1:
            rep.sample({'history': [(e['op'], e['c'], e['ms'], e['l'], e['name'], e['v'], e['f'], e['t'], e['x']) for e in hist],
                        'outcome': st['err']})
        if d:
            key = 'C17/%s/%s' % (label, hist[-1]['op'])
            rep.violation(key, d, {'history': hist, 'expected_err': st['err']})
    rep.traces += n
    return n


# ------------------------------------------------------------------ V: record real histories

def random_history(rng, steps, maxctx, spell, values, fnames, tags, maxmem):
    """Drive the real classes with random API calls; record event + real outcome + real reads."""
    r = Real(fnames, tags)
    names = sorted(set(CANON[s] for s in spell))
    events = []
    nodes = []       # mirror of the spec's node table: (cls, parent, members, linked)

    def add_node(cls, parent, members=(), linked=0):
        nodes.append((cls, parent, tuple(members), linked))
        return len(nodes)

    def mk_multi(ms):
        ps = [nodes[m - 1][1] for m in ms if nodes[m - 1][1]]
        if not ps:
            return add_node('M', 0, ms)
        if len(ps) == 1:
            return add_node('M', ps[0], ms)
        p = mk_multi(ps)
        return add_node('M', p, ms)

    def mk_linked(p, l):
        if nodes[l - 1][1]:
            pp = mk_linked(p, nodes[l - 1][1])
            return add_node('L', pp, (), l)
        return add_node('L', p, (), l)

    declared = []
    for i in range(steps):
        ops = ['NewContext']
        if declared:
            ops += ['Set'] * 5 + ['Del'] * 2 + ['Register'] * 3 + ['DeleteFunction'] * 2
            if len(declared) < maxctx:
                ops += ['Child'] * 2 + ['NewMulti'] * 2 + ['NewLinked'] * 2
        if len(declared) >= maxctx:
            ops = [o for o in ops if o not in ('NewContext',)] or ['Set']
        op = rng.choice(ops)
        e = {'op': op, 'c': 0, 'ms': [], 'l': 0, 'name': '', 'v': '', 'f': '', 't': '', 'x': False, 'new': len(nodes)}
        if op == 'NewContext':
            e['c'] = rng.choice(declared + [0])
            e['new'] = add_node('C', e['c'])
        elif op == 'NewMulti':
            k = rng.randint(1, min(maxmem, len(declared)))
            e['ms'] = rng.sample(declared, k)
            e['new'] = mk_multi(e['ms'])
        elif op == 'NewLinked':
            e['c'] = rng.choice(declared + [0])
            e['l'] = rng.choice(declared)
            e['new'] = mk_linked(e['c'], e['l'])
        elif op == 'Child':
            e['c'] = rng.choice(declared)
            e['new'] = add_node('C', e['c'])
        elif op in ('Set', 'Del'):
            e['c'] = rng.choice(declared)
            e['name'] = rng.choice(spell)
            if op == 'Set':
                e['v'] = rng.choice(values)
        else:
            e['c'] = rng.choice(declared)
            e['f'] = rng.choice(fnames)
            e['t'] = rng.choice(tags)
            if op == 'Register':
                e['x'] = rng.random() < 0.25
        err = r.apply(e)
        if op in ('NewContext', 'NewMulti', 'NewLinked', 'Child'):
            if err == 'ok':
                declared.append(e['new'])
            else:
                nodes.pop()   # only Child can fail, it adds exactly one node
                e['new'] = len(nodes)
        ev = dict(e)
        ev['x'] = 1 if e['x'] else 0
        ev['err'] = err
        ev['obs'] = obs_json(r.observe(names), names, fnames, tags)
        events.append(ev)
    return events


def record_history(hist, names, fnames, tags):
    """Replay a spec-generated history into the real classes and record what they do."""
    r = Real(fnames, tags)
    out = []
    for e in hist:
        err = r.apply(e)
        ev = dict(e)
        ev['x'] = 1 if e['x'] else 0
        ev['err'] = err
        ev['obs'] = obs_json(r.observe(names), names, fnames, tags)
        out.append(ev)
    return out


def obs_json(obs, names, fnames, tags):
    """Real observations in an ASCII JSON shape TLC's Json module can read (no null, no empty object)."""
    ks = [('all', frozenset(tags))] + [(t, frozenset([t])) for t in tags]
    out = []
    for cid in sorted(obs):
        o = obs[cid]
        out.append({
            'c': cid,
            'get': [[n, o['get'][n]] for n in names],
            'has': sorted(o['has']),
            'keys': sorted(o['keys']) if not isinstance(o['keys'], str) else [o['keys']],
            'funcs': [[f, kn, sorted(o['funcs'][f][k][0]), 1 if o['funcs'][f][k][1] else 0]
                      if not isinstance(o['funcs'][f][k], str) else [f, kn, [o['funcs'][f][k]], 2]
                      for f in fnames for kn, k in ks],
            'collect': [[f, kn, [sorted(layer) for layer in o['collect'][f][k]]]
                        if not isinstance(o['collect'][f][k], str) else [f, kn, [[o['collect'][f][k]]]]
                        for f in fnames for kn, k in ks],
        })
    return out


TRACE_CFG = '''SPECIFICATION TraceSpec
CONSTANTS
 MaxCtx = 99
 Spellings = {%(spell)s}
 Values = {%(values)s}
 FNames = {%(fnames)s}
 Tags = {%(tags)s}
 MaxMembers = 9
 MaxHist = 100000
 FixedChild = TRUE
POSTCONDITION TraceAccepted
CHECK_DEADLOCK FALSE
'''


def validate_traces(rep, wd, traces, spell, values, fnames, tags, label):
    """traces: list of event lists. One TLC job validates all of them."""
    path = os.path.join(wd, 'trace-%s.ndjson' % label)
    nev = 0
    with open(path, 'w') as f:
        for tid, evs in enumerate(traces):
            for seq, e in enumerate(evs):
                e = dict(e, tr=tid, seq=seq)
                f.write(json.dumps(e, sort_keys=True) + '\n')
                nev += 1
    c = TRACE_CFG % dict(spell=q(spell), values=q(values), fnames=q(fnames), tags=q(tags))
    r = tlc.run('Trace_Contexts', c, wd, env={'TRACE_FILE': path}, workers=1, timeout=1800)
    rep.tlc('Trace_Contexts/' + label, r)
    rejects = r.printed('REJECT')
    if r.rc != 0 and not rejects:
        raise tlc.TLCError('Trace_Contexts failed rc=%s\n%s' % (r.rc, r.out[-2500:]))
    first = {}
    for rej in rejects:
        first.setdefault(rej[1], rej)     # model and code diverge after a mismatch: report the first per trace
    for rej in first.values():
        _, tid, seq, clause = rej[:4]
        evs = traces[tid][:seq + 1]
        rep.violation('C17/trace/%s/%s' % (clause, evs[-1]['op']),
                      'trace %d event %d (%s) rejected by clause %s' % (tid, seq, evs[-1]['op'], clause),
                      {'history': [dict((k, v) for k, v in e.items() if k != 'obs') for e in evs], 'clause': clause})
    if not rejects and 'TraceAccepted' in r.out and 'violated' in r.out:
        raise tlc.TLCError('trace not fully consumed\n' + r.out[-2000:])
    rep.traces += len(traces)
    rep.evaluations += nev
    return nev


def run(rep, tier, seed, keep=False):
    wd = tlc.workdir('c17')
    try:
        quick = tier == 'quick'
        fnames, tags = ['f'], ['o1', 'o2']
        values = ['null', 'v1']
        # ---- M: algorithm refines layers, history hidden
        mjobs = [('MaxCtx=2 full', 2, ['$', 'x'], values, ['o1', 'o2']),
                 ('MaxCtx=3 null-only', 3, ['x'], ['null'], ['o1'])]
        if not quick:
            mjobs += [('MaxCtx=3 two names', 3, ['$', 'x'], ['null'], ['o1']),
                      ('MaxCtx=4 null-only', 4, ['x'], ['null'], ['o1'])]
        acts = ('NewContext', 'NewMulti', 'NewLinked', 'Child', 'Set', 'Del', 'Register', 'DeleteFunction')
        for name, mc, msp, mvals, mtags in mjobs:
            r = tlc.ok(tlc.run('Contexts', cfg(mc, msp, mvals, fnames, mtags, 2, 99, view=True), wd,
                               workers=16, timeout=3000, coverage=True))
            rep.tlc('Contexts/M ImplRefinesRef ' + name, r)
            dead = [a for a in acts if a in r.coverage and r.coverage[a][0] == 0]
            if dead or not r.coverage:
                raise tlc.TLCError('vacuous M run: actions never taken: %s' % dead)
            rep.extra.setdefault('M_actions_coverage', {})[name] = {k: v[0] for k, v in r.coverage.items() if k in acts}
        # ---- G: every history up to the bound, with expected observations
        depth = 4 if quick else 5
        gspell = ['$', 'x']
        dump = os.path.join(wd, 'g')
        r = tlc.ok(tlc.run('Contexts', cfg(4, gspell, values, fnames, tags, 2, depth), wd, workers=8,
                           dump=dump, timeout=3000))
        rep.tlc('Contexts/G histories<=%d' % depth, r)
        names = sorted(set(CANON[s] for s in gspell))
        n = check_states(rep, tlaval.parse_dump(dump + '.dump'), names, fnames, tags, 'G')
        os.remove(dump + '.dump')
        rep.extra['G_histories_replayed'] = n
        rep.exhaustive = True
        # ---- G (simulation): deeper random behaviours of the spec (history only; the reads they
        # demand are computed by the trace spec below, on the replayed path)
        simdir = os.path.join(wd, 'sim')
        os.makedirs(simdir)
        nsim = 300 if quick else 3000
        sdepth = 12 if quick else 20
        sspell = ['', '$', '$1', '1', 'x', '$x', 'y', '$y']
        vvals = ['null', 'v1', 'v2']
        c = cfg(6, sspell, vvals, ['f', 'g'], tags, 3, sdepth)
        c = c.replace('SPECIFICATION Spec', 'SPECIFICATION SimSpec')
        c = '\n'.join(l for l in c.split('\n') if not l.startswith('INVARIANT'))
        r = tlc.run('Contexts', c, wd, workers=1, simulate='file=%s/tr,num=%d' % (simdir, nsim),
                    depth=sdepth + 1, seed=seed + 17, timeout=3000)
        if r.rc != 0:
            raise tlc.TLCError('simulation failed\n' + r.out[-2000:])
        rep.tlc('Contexts/simulate', r)
        simtraces = []
        for fn in sorted(os.listdir(simdir)):
            states = list(parse_sim(os.path.join(simdir, fn)))
            if states and states[-1]['hist']:
                simtraces.append(record_history(hist_list(states[-1]['hist']), ['$1', '$x', '$y'], ['f', 'g'], tags))
        shutil.rmtree(simdir)
        rep.extra['sim_behaviours_replayed'] = len(simtraces)
        rep.extra['sim_events_validated'] = validate_traces(rep, wd, simtraces, sspell, vvals, ['f', 'g'], tags, 'sim')
        # ---- V: long random histories on the real classes, validated by the trace spec
        rng = random.Random(seed * 7919 + 3)
        ntr, steps = (40, 60) if quick else (400, 150)
        vsp = ['', '$', '$1', '1', 'x', '$x', 'y', '$y']
        traces = [random_history(rng, rng.randint(steps // 2, steps), 12, vsp, vvals, ['f', 'g'], tags, 3)
                  for _ in range(ntr)]
        nev = validate_traces(rep, wd, traces, vsp, vvals, ['f', 'g'], tags, 'V')
        rep.extra['V_events_validated'] = nev
        rep.extra['mixed_convention_collections'] = mixed_conventions(rep)
        rep.rule = ('G: all API histories of length <= %d over <=3 declared contexts (TLC state dump, one replay per state); '
                    'simulation: random behaviours of depth <= %d; V: random real histories of up to %d calls over <=12 contexts '
                    'validated event by event. Non-trivial = history that builds a multi/linked context and writes through some context.'
                    % (depth, sdepth, steps))
        rep.assumptions = ['projection of real reads (vf/props/c17.py Real.observe) is trusted',
                           'FunctionDefinition identity stands for the overload']
    finally:
        if not keep:
            tlc.cleanup(wd)


def mixed_conventions(rep):
    """Trees whose layers carry different naming conventions (camelCase library, Python-convention extension layers, multi
    contexts with members of both kinds in both orders): a collection made with use_convention is, layer by layer, what each
    layer's own get_functions gives for the name - the rule of the specification (Contexts.tla: CollectFunctions) with the
    layer primitive read from the layer itself."""
    from yaql.language import contexts, conventions
    camel, py = conventions.CamelCaseConvention(), conventions.PythonConvention()

    def mk(tag):
        def some_name():
            return tag
        return some_name

    def other_name_():
        return 'o'
    n = 0

    def layerwise(ctx, name):
        out = []
        c = ctx
        while c is not None:
            fs, excl = c.get_functions(name, None, True)
            fs = set(fs)
            if fs:
                out.append(fs)
            if excl:
                break
            c = c.parent
        return out
    trees = []
    for order in ((camel, py, camel), (py, camel, py), (py, py, camel), (camel, camel, py)):
        a = contexts.Context(convention=order[0])
        a.register_function(mk('a'))
        a.register_function(other_name_)
        b = contexts.Context(a, convention=order[1])
        b.register_function(mk('b'))
        c = contexts.Context(b, convention=order[2])
        c.register_function(mk('c'))
        trees += [a, b, c, c.create_child_context()]
        for first, second in ((order[0], order[1]), (order[1], order[0])):
            m1 = contexts.Context(c, convention=first)
            m1.register_function(mk('m1'))
            m2 = contexts.Context(convention=second)
            m2.register_function(mk('m2'))
            m2.register_function(other_name_)
            multi = contexts.MultiContext([m1, m2])
            trees += [multi, multi.create_child_context(), contexts.LinkedContext(b, multi)]
    for t in trees:
        for name in ('some_name', 'someName', 'other_name_', 'otherName', 'other_name'):
            try:
                got = [set(l) for l in t.collect_functions(name, lambda fd, cx: True, use_convention=True)]
                want = layerwise(t, name)
            except Exception as e:  # noqa
                rep.violation('C17/mixed-conventions/raises', 'collect_functions(%r, use_convention=True) on %s raises %s' % (name, type(t).__name__, type(e).__name__), {'name': name})
                continue
            n += 1
            rep.evaluations += 1
            if got != want:
                rep.violation('C17/mixed-conventions/collect', 'collect_functions(%r, use_convention=True) on a %s over layers with different conventions gives layers %r, '
                              'the layers themselves give %r' % (name, type(t).__name__, [sorted(fd.name for fd in l) for l in got], [sorted(fd.name for fd in l) for l in want]),
                              {'name': name})
    return n


def parse_sim(path):
    """States of one `-simulate file=` behaviour module."""
    import re
    txt = open(path).read()
    for m in re.finditer(r'STATE_\d+ ==\s*\n(.*?)(?=\n\n|\n\\\*|\n====|\Z)', txt, re.S):
        body = m.group(1)
        lines = body.split('\n')
        yield tlaval._state(lines)


def replay(path):
    doc = json.load(open(path))
    case = doc['case']
    hist = case['history']
    names = ['$1', '$x', '$y']
    fn = sorted(set(e['f'] for e in hist if e['f'])) or ['f']
    tg = ['o1', 'o2']
    r = Real(fn, tg)
    for e in hist:
        print(e['op'], {k: v for k, v in e.items() if v not in ('', 0, [], False) and k not in ('op', 'obs')}, '->', r.apply(e))
    obs = r.observe(names)
    for cid in sorted(obs):
        print(' ctx', cid, type(r.objs[cid]).__name__, obs[cid]['get'], 'has', sorted(obs[cid]['has']),
              'collect', {f: [sorted(l) for l in d[frozenset(tg)]] if not isinstance(d[frozenset(tg)], str) else d[frozenset(tg)]
                          for f, d in obs[cid]['collect'].items()})
    print(doc['desc'])
    return 1
