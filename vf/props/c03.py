"""C03 - parsing is total: a statement or a YAQL parsing error, nothing else.

G  MC_Grammar (Mode = soup): every token sequence of length <= 3 over the full token alphabet of the standard table with
   the model's accept/reject verdict; each is concretised and parsed; Lexing's MC enumerates every escape shape
   (bodies <= 3-4 over the class alphabet x 3 styles).  Property clauses (outcome class, position) gate; the model's
   accept/reject prediction is a fidelity note.
V  token soups (4-40 tokens), valid expressions with single-character insert/delete/substitute, escape shapes, numerals of
   up to 6000 digits, identifiers of 10^4 characters, arbitrary code points (surrogates, NUL, combining marks, non-ASCII
   digits): one event per parse, judged by Trace_Parse.tla.
"""
import json
import random
import signal

from vf import tlc, tlaval, trace
from vf.props import c02

TOKENS = ['a', 'x1', '$', '$v', '12', '1.5', "'s'", '"d"', '`v`', 'true', 'null', 'foo(', '(', ')', '[', ']', '{', '}', ',', '=>',
          '.', '?.', '+', '-', '*', '/', 'mod', '=~', '!~', '>', '<', '>=', '<=', '!=', '=', 'in', 'not', 'and', 'or', '->', '#', '@', '\\', "'", '"', '`',
          '__x', '_', 'é', '١٢', '1a', '1.', '.5', '$1', '$$', '!', '|', '&', '^', '%', ';', ':', '~', '?']
VALID = ["$.where($ > 1).select($ * 2)", "[1, 2, 3].sum()", "{a => 1, 'b' => [2, 3]}.a", "let(x => 1, y => 2) -> $x + $y", "$.foo[0].bar('s', t => null)",
         "not $a and ($b or -$c >= 2) in [true]", "a.b?.c(1,,2)", "'it''s' + \"q\\\"x\" + `v\\`w`", "switch($ > 5 => 1, true => 2)", "dict(a => 1).items().toList()[0]",
         "$x =~ '^a.*' or $y !~ 'b'", "1.5 * (2 - 3) / 4 mod 5", "func(,a)", "[[], {}, [{}]]", "$.a.b.c.d.e.f"]


class Alarm(Exception):
    pass


def _alarm(*a):
    raise Alarm()


def parse_outcome(engine, text, exc):
    r = _parse_outcome(engine, text, exc, 10.0)
    if r[0] == 'timeout':
        r = _parse_outcome(engine, text, exc, 60.0)       # (a busy machine can stall the first watchdog)
    return r


def _parse_outcome(engine, text, exc, timeout):
    signal.signal(signal.SIGALRM, _alarm)
    signal.setitimer(signal.ITIMER_REAL, timeout)
    try:
        engine(text)
        return ('statement', -1)
    except Alarm:
        return ('timeout', -1)
    except exc.YaqlLexicalException as e:
        return ('lexical', -1 if e.position is None else e.position)
    except exc.YaqlGrammarException as e:
        return ('grammar', -1 if e.position is None else e.position)
    except RecursionError:
        return ('other:RecursionError', -1)
    except BaseException as e:  # noqa
        return ('other:' + type(e).__name__, -1)
    finally:
        signal.setitimer(signal.ITIMER_REAL, 0)


def run(rep, tier, seed, keep=False):
    import yaql
    from yaql.language import exceptions as exc
    quick = tier == 'quick'
    wd = tlc.workdir('c03')
    try:
        rng = random.Random(seed * 69069 + 3)
        engine = yaql.YaqlFactory().create()
        events = []
        texts = {}

        def add(text, eng=None):
            o, p = parse_outcome(eng or engine, text, exc)
            if isinstance(p, bool) or not isinstance(p, int):
                o, p = 'other:position-not-int', -1
            i = len(events)
            events.append({'id': i, 'len': len(text), 'outcome': o, 'pos': p})
            texts[i] = text
            return o
        # ---- G: token sequences <= 3 with the model's verdict
        cfg_reps = []
        r, dump = c02.gen(wd, 'soup', 'standard', [()], [], [], [], 3, 0, ['atom'], mode='soup')
        rep.tlc('Grammar/G token soups <= 3', r)
        nsoup = 0
        agree = 0
        for st in tlaval.parse_dump(dump):
            toks = [str(t) for t in st['toks']]
            text, _, _ = c02.concretise(toks, rng, substitute=False)
            o = add(text)
            nsoup += 1
            model_ok = bool(st['out']['ok'])
            if (o == 'statement') == model_ok:
                agree += 1
            elif len(rep.notes) < 8:
                rep.note('model %s, real %s for tokens %s' % ('accepts' if model_ok else 'rejects', o, ' '.join(toks)))
        rep.extra['soup_sequences'] = nsoup
        rep.extra['soup_accept_reject_agreement'] = agree
        # ---- G: the same on engines with other operator tables: a customised table (suffix, prefix and binary operators inserted
        #      through insert_operator), the legacy table, an engine that allows calling values
        custom_calls = (('*', True, '!', 'suf', True), ('-', False, '~', 'pre', False), ('*', True, '**', 'binr', True))
        others = [('standard', custom_calls), ('legacy', ()), ('delegates', ())]
        other_engines = []
        for base, calls in others:
            eng2 = c02.real_factory(base, calls).create()
            other_engines.append(eng2)
            r, dump = c02.gen(wd, 'soup_' + base, base, [calls], [], [], [], 2 if quick else 3, 0, ['atom'], mode='soup')
            rep.tlc('Grammar/G token soups, %s table %s' % (base, 'with inserted operators' if calls else ''), r)
            for st in tlaval.parse_dump(dump):
                toks = [str(t) for t in st['toks']]
                text, _, _ = c02.concretise(toks, rng, substitute=False)
                o = add(text, eng2)
                nsoup += 1
                if (o == 'statement') != bool(st['out']['ok']) and len(rep.notes) < 8:
                    rep.note('model %s, real %s for tokens %s (%s table)' % ('accepts' if st['out']['ok'] else 'rejects', o, ' '.join(toks), base))
        rep.extra['soup_sequences_all_tables'] = nsoup
        # ---- G: escape shapes from Lexing's enumeration (every body <= n x 3 styles)
        alpha = '{39, 34, 96, 92, 120, 117, 85, 78, 123, 125, 97, 49, 56, 103, 110, 10}'
        cfg = 'SPECIFICATION Spec\nCONSTANTS\n Alphabet = %s\n MaxLen = %d\n Mode = "bodies"\n' % (alpha, 3 if quick else 4)
        d2 = wd + '/esc'
        r = tlc.ok(tlc.run('MC_Lexing', cfg, wd, workers=16, dump=d2))
        rep.tlc('Lexing/G escape shapes', r)
        nesc = 0
        mism = 0
        for st in tlaval.parse_dump(d2 + '.dump'):
            body = ''.join(chr(c) for c in st['body'])
            qch = {'single': "'", 'double': '"', 'verbatim': '`'}[str(st['style'])]
            o = add(qch + body + qch)
            nesc += 1
            kind = str(st['lit']['kind'])
            if kind == 'value' and o != 'statement' or kind == 'error' and o == 'statement':
                mism += 1
                if len(rep.notes) < 12:
                    rep.note('literal %r: model %s, real %s' % (qch + body + qch, kind, o))
        rep.extra['escape_shapes'] = nesc
        rep.exhaustive = True
        ng = len(events)
        # ---- V
        n = 2000 if quick else 150000
        for _ in range(n):
            k = rng.randint(4, 40)
            add(rng.choice(['', ' ', ' ', '']).join(rng.choice(TOKENS) for _ in range(k)))
        for eng2 in other_engines:
            for _ in range(n // 4):
                k = rng.randint(2, 12)
                add(rng.choice(['', ' ', ' ', '']).join(rng.choice(TOKENS + ['!', '~', '**', '(', '=>', '1', "'a'", 'true', 'x']) for _ in range(k)), eng2)
        for _ in range(n):
            t = rng.choice(VALID)
            for _m in range(rng.randint(1, 3)):
                i = rng.randrange(len(t) + 1)
                op = rng.random()
                ch = rng.choice(list("()[]{},.'\"`\\$=><!+-*/ \n\t#@x1_é") + [chr(rng.randint(0, 0x2fff)), chr(rng.randint(0xd800, 0xdfff)), '\x00'])
                t = t[:i] + ch + t[i:] if op < 0.4 else (t[:i] + t[i + 1:] if op < 0.7 else t[:i] + ch + t[i + 1:])
            add(t)
        # escape shapes inside the three quote styles
        payloads = ['', 'z', 'zz', '1', '12', 'g1', '{', '{}', '{foo}', '{LATIN SMALL LETTER A}', '{a', 'ffffffff', '00110000', '0000d800', '110000', 'FFFF', 'd800', '7', '777', '8',
                    '\n', '\n\n', '\x00', '\\', 'é']
        for qch in "'\"`":
            for e in ['\\U', '\\u', '\\x', '\\N', '\\', '\\0', '\\a', '\\q', '\\' + qch]:
                for pl in payloads:
                    for tail in ['', 'x', '\\']:
                        add(qch + e + pl + tail + qch)
                        add('f(' + qch + 'a' + e + pl + qch + ', 1)')
        # unterminated literals with long tails (a string-token rule that backtracks would not come back)
        for qch in "'\"`":
            for L in (10, 30, 60, 200, 2000):
                add(qch + 'a' * L)
                add(qch + 'ab ' * (L // 3) + '\\')
                add('f(1, ' + qch + 'x y ' * (L // 4) + ')')
                add(qch + ('\\' + qch) * (L // 2))
                add(qch + 'a\\' * (L // 2) + 'b')
        # very long numerals and identifiers
        for L in [1, 10, 100, 1000, 4299, 4300, 4301, 5000, 6000]:
            add('1' * L)
            add('9' * L + '.5')
            add('1.' + '3' * L)
            add('0' * L)
            add('1' * L + 'a')
            add('x' * L)
            add('$' + 'v' * L)
            add('f' * L + '(1)')
            add('1 + ' * min(L, 300) + '1')
            add('-' * min(L, 400) + '1')
            add('(' * min(L, 200) + '1' + ')' * min(L, 200))
            add("'" + 'a' * L + "'")
        add('x' * 10000)
        add('(' * 5000)
        add('[' * 3000 + ']' * 3000)
        # arbitrary code points
        for _ in range(n):
            k = rng.randint(1, 12)
            add(''.join(chr(rng.choice([rng.randint(0, 0x7f), rng.randint(0x80, 0x2fff), rng.randint(0xd800, 0xdfff), rng.randint(0x10000, 0x10ffff),
                                        0, 0x301, 0x660, 0x966, 0xff11, 0x2028, 0xa0, 0x85, 0xfeff])) for _ in range(k)))
        for cp in list(range(0, 0x300)) + [0x660, 0x6f0, 0x966, 0xff10, 0x1d7ce, 0x2028, 0x2029, 0x200b, 0xfeff, 0xd800, 0xdfff, 0xfffe, 0x10ffff]:
            add(chr(cp))
            add('a' + chr(cp) + 'b')
            add('1' + chr(cp))
            add("'" + chr(cp) + "'")
            add('$' + chr(cp))
        rej = trace.validate(rep, wd, 'Trace_Parse', events, 'Trace_Parse/V', heap='12g')
        for eid, clause in rej:
            t = texts[eid]
            ev = events[eid]
            rep.violation('C03/%s/%s' % (clause, ev['outcome']),
                          'parse of %r (len %d): outcome %s position %s: clause %s' % (t[:200], len(t), ev['outcome'], ev['pos'], clause),
                          {'text': t if len(t) < 5000 else t[:200], 'len': len(t), 'codepoints': [ord(c) for c in t[:200]]})
        rep.traces += len(events)
        rep.evaluations += len(events)
        from collections import Counter
        cnt = Counter(e['outcome'] for e in events)
        rep.extra['outcomes'] = dict(cnt)
        rep.nontrivial = cnt.get('lexical', 0) + cnt.get('grammar', 0)
        rep.sample({'text': texts[ng + 3], 'event': events[ng + 3]})
        rep.sample({'text': texts[5], 'event': events[5]})
        rep.rule = ('G: all token sequences <= %d over the %d-token alphabet (TLC), all literal bodies over the escape class alphabet; V: %d token soups, '
                    '%d mutated valid expressions, escape shapes x payloads x 3 quote styles, long numerals/identifiers, %d code point strings. '
                    'Non-trivial = inputs that end in a parsing error.' % (2 if quick else 3, 34, n, n, n))
        rep.assumptions = ['a 10 s alarm stands for non-termination']
    finally:
        if not keep:
            tlc.cleanup(wd)


def replay(path):
    import yaql
    doc = json.load(open(path))
    print(doc['desc'])
    c = doc['case']
    t = ''.join(chr(x) for x in c['codepoints']) if c['len'] <= 200 else c['text']
    try:
        yaql.YaqlFactory().create()(t)
        print('statement')
    except Exception as e:  # noqa
        print(type(e).__mro__, getattr(e, 'position', None))
    return 1
