"""C18 - concurrent evaluations do not interfere.

M  Purity.tla (concurrent): discipline => HostUnchanged /\\ NonInterference under every interleaving; negative job.
G  TLC enumerates every interleaving of 2 evaluations (<= 5 steps each) and 3 evaluations (<= 3 steps), and simulates random
   interleavings of the real step counts of longer evaluations; each schedule is forced onto real threads by the gate
   scheduler (gates: Statement.evaluate entry and yaql.language.runner.call entry); every thread evaluates in its own
   child of one shared prepared context; results are compared with the sequential baseline, the shared chain with its snapshot.
V  the write events recorded during the scheduled runs and during free-running threads (1 us switch interval) are validated
   against the ownership discipline by Trace_Purity.tla (schedule independent).
"""
import copy
import itertools
import json
import random
import sys
import threading

from vf import recorder, sched, tlc, tlaval
from vf.props import c09

POOL = c09.POOL + [
    "$.select($ * 2).where($ > 2).orderBy(-$)", "$.orderByDescending($).thenBy($ mod 2).toList()", "'a-b-c'.split('-').select($.toUpper()).join('+')",
    "regex('(\\\\d)').searchAll('a1b22c3', int($2.value) * $.len())", "datetime(2020, 1, 1, 0, 0, 0).timestamp + $.sum()", "$.select(max($, 2)).sum() + abs(-3)",
    "{a => $, b => {c => $.len()}}.b.c", "$.toSet().toList().orderBy($)", "$.selectMany([$, $ * 10]).distinct()", "switch($.len() > 2 => 'big', true => 'small')",
    "$.any($ > 2) and not $.all($ > 2)", "$.takeWhile($ < 3).concat($.skipWhile($ < 3))", "coalesce(null, $.first()) ?? 0" if False else "coalesce(null, $.first())",
    "let(f => 2) -> $.select($ * $f).sum()", "$.where($ mod 2 = 0).select({v => $}).select($.v)",
    # numbers beyond the interpreter's str <-> int conversion limit (a process-wide setting no evaluation may disturb)
    "str(pow(10, 5000)).len()", "int('7' * 6000) mod 1000",
    # helpers the host defined once in the shared context (yaql-level functions: def())
    "addTen($.sum())", "$.select(sq($)).sum() + addTen($.len())", "$.select(addTen($)).where($ > 11).len()",
    # results that hand out objects of the shared context (and the empty collection every evaluation knows)
    "$fz.k", "{a => $fz.k, b => [], c => $cfg.k}",
    # values of the shared context used where they must be hashed
    "[$fz.a, $fz.b].distinct().len()", "[$fz.a, $fz.b, $fz.a].toSet().len() + $.len()", "$.select($fz.b).distinct().len()",
    # several time zone offsets in one statement
    "[datetime(2020, 1, 1, 3, 0, 0, 0, timespan(hours => 3)), datetime(2020, 1, 1, 3, 0, 0, 0, timespan(hours => -5))].select([$.offset.hours, $.utc.hour]) + [$.len()]",
    "[datetime('2020-01-01T03:00:00').replace(offset => timespan(hours => $.len())), datetime(2020, 6, 1, offset => timespan(minutes => -90))].select($.format('%H:%M%z'))",
]
FZ = {'k': [1, 2, 3], 'a': {'x': 1, 'y': [1, 2], 'z': 'zz', 'w': None}, 'b': {'w': None, 'z': 'zz', 'y': [1, 2], 'x': 1}}
DATAS = [[3, 1, 2], [1, 2, 3, 4], [5, 2, 2]]


def gates_patch(s):
    import yaql.language.runner as runner
    from yaql.language import expressions
    p = sched.Patch()
    orig_call = runner.call

    def call(*a, **k):
        s.gate()
        return orig_call(*a, **k)
    p.saved.append((runner, 'call', orig_call))
    runner.call = call
    orig_ev = expressions.Statement.evaluate

    def evaluate(self, *a, **k):
        s.gate()
        return orig_ev(self, *a, **k)
    p.saved.append((expressions.Statement, 'evaluate', orig_ev))
    expressions.Statement.evaluate = evaluate
    return p


def count_steps(st, data, ctx, rec=None):
    """first (cold) evaluation of the statement in this process: counted, and recorded for the ownership discipline -
    lazily initialised state on shared definitions would be written exactly here"""
    c = [0]

    class S(object):
        def gate(self):
            c[0] += 1
    p = gates_patch(S())
    try:
        child = ctx.create_child_context()
        if rec is not None:
            rec.new_trace()
            rec.begin(1, child)
        try:
            st.evaluate(data=copy.deepcopy(data), context=child)
        except Exception:
            pass
        finally:
            if rec is not None:
                rec.end(1)
    finally:
        p.__exit__()
    return c[0]


def _expr_ids(node, acc, depth=0):
    from yaql.language import expressions
    if id(node) in acc or depth > 40:
        return
    if isinstance(node, expressions.Expression):
        acc.add(id(node))
        for v in list(getattr(node, '__dict__', {}).values()):
            if isinstance(v, (list, tuple)):
                for x in v:
                    _expr_ids(x, acc, depth + 1)
            else:
                _expr_ids(v, acc, depth + 1)


def write_point_preemption(rep, rng, quick, baseline):
    import yaql
    from yaql.language import contexts, specs, expressions, utils as yutils
    from vf.props import c08
    classes = [contexts.Context, contexts.MultiContext, contexts.LinkedContext, specs.FunctionDefinition, specs.ParameterDefinition,
               expressions.Expression, yutils.FrozenDict]

    def data_ids(v, acc, depth=0):
        if depth > 8:
            return
        if isinstance(v, yutils.FrozenDict):
            acc.add(id(v))
            for k_, x in v.items():
                data_ids(x, acc, depth + 1)
        elif isinstance(v, (list, tuple, set, frozenset)):
            for x in v:
                data_ids(x, acc, depth + 1)
    hook = {'armed': False, 'thread': None, 'k': -1, 'n': 0, 'shared': set(), 'fire': None}
    saved = []

    def trap(cls):
        orig = cls.__setattr__

        def w(self, name, value):
            orig(self, name, value)
            if hook['armed'] and threading.current_thread() is hook['thread'] and id(self) in hook['shared']:
                hook['n'] += 1
                if hook['n'] == hook['k']:
                    hook['armed'] = False
                    hook['fire']()
        saved.append((cls, orig))
        cls.__setattr__ = w
    for cls in classes:
        trap(cls)
    engine = yaql.YaqlFactory().create()
    runs = 0

    def fresh_world(i, j):
        shared = yaql.create_context()
        shared['cfg'] = {'k': [1, 2, 3]}
        shared['fz'] = yutils.convert_input_data(copy.deepcopy(FZ))
        shared = with_helpers(shared).create_child_context()
        shared['lim'] = 2
        sa = engine(POOL[i])
        sb = sa if i == j else engine(POOL[j])
        ids = set()
        c = shared
        while c is not None:
            ids.add(id(c))
            for v in getattr(c, '_data', {}).values():
                data_ids(v, ids)
            c = c.parent
        for _n, fd in c08.all_fds(shared):
            ids.add(id(fd))
            for p_ in fd.parameters.values():
                ids.add(id(p_))
        _expr_ids(sa, ids)
        _expr_ids(sb, ids)
        return shared, sa, sb, ids

    def one(i, j, k):
        shared, sa, sb, ids = fresh_world(i, j)
        res = {}

        def fire():
            def body():
                res['b'] = outcome(lambda: sb.evaluate(data=copy.deepcopy(DATAS[1]), context=shared.create_child_context()))
            th = threading.Thread(target=body)
            th.start()
            th.join()
        hook.update(armed=True, thread=threading.current_thread(), k=k, n=0, shared=ids, fire=fire)
        try:
            res['a'] = outcome(lambda: sa.evaluate(data=copy.deepcopy(DATAS[0]), context=shared.create_child_context()))
        finally:
            hook['armed'] = False
        return res, hook['n']
    try:
        pairs = [(i, i) for i in range(len(POOL))] + [(i, (i * 7 + 3) % len(POOL)) for i in range(len(POOL))]
        if quick:
            pairs = pairs[:len(POOL)] + pairs[len(POOL)::4]
        for (i, j) in pairs:
            _, n = one(i, j, -1)
            for k in range(1, min(n, 12 if quick else 60) + 1):
                res, _ = one(i, j, k)
                runs += 1
                rep.evaluations += 2
                for who, idx, d in (('a', i, DATAS[0]), ('b', j, DATAS[1])):
                    if who in res and not same(res[who], baseline(idx, d)):
                        rep.violation('C18/shared-write-preemption/result-differs',
                                      '%r suspended after its shared write no. %d while %r ran to completion on the same shared context: %s gave %r, alone it gives %r' % (
                                          POOL[i], k, POOL[j], 'the suspended one' if who == 'a' else 'the other', res[who], baseline(idx, d)),
                                      {'statements': [POOL[i], POOL[j]], 'write': k})
    finally:
        for cls, orig in saved:
            cls.__setattr__ = orig
    return runs


def global_store_preemption(rep, rng, quick, baseline):
    """the same single preemption, placed after every store to a module global or a closure cell that an evaluation performs
    inside the yaql package (per-call scratch state parked at module level is shared by every thread of the process): opcode
    tracing of the suspended thread finds the stores, the other evaluation runs to completion right after each"""
    import dis
    import os
    import yaql
    from yaql.language import utils as yutils
    root = os.path.dirname(os.path.abspath(yaql.__file__)) + os.sep
    gstores = set(dis.opmap[n] for n in ('STORE_GLOBAL', 'DELETE_GLOBAL') if n in dis.opmap)
    dstores = set(dis.opmap[n] for n in ('STORE_DEREF', 'DELETE_DEREF') if n in dis.opmap)
    free = {}
    engine = yaql.YaqlFactory().create()
    hook = {'armed': False, 'k': -1, 'n': 0, 'fire': None, 'pending': False}

    def local(frame, event, arg):
        if hook['pending']:
            hook['pending'] = False
            if hook['armed']:
                hook['n'] += 1
                if hook['n'] == hook['k']:
                    hook['armed'] = False
                    hook['fire']()
        if event == 'opcode':
            code = frame.f_code
            op = code.co_code[frame.f_lasti]
            if op in gstores:
                hook['pending'] = True
            elif op in dstores:
                # a store through a closure cell counts when the cell belongs to an enclosing scope (nonlocal), not to this call
                key = (code, frame.f_lasti)
                if key not in free:
                    try:
                        free[key] = code._varname_from_oparg(code.co_code[frame.f_lasti + 1]) in code.co_freevars
                    except Exception:  # noqa
                        free[key] = True
                if free[key]:
                    hook['pending'] = True
        return local

    def tracer(frame, event, arg):
        if event == 'call' and frame.f_code.co_filename.startswith(root):
            frame.f_trace_opcodes = True
            return local
        return None

    def one(i, j, k):
        shared = yaql.create_context()
        shared['cfg'] = {'k': [1, 2, 3]}
        shared['fz'] = yutils.convert_input_data(copy.deepcopy(FZ))
        shared = with_helpers(shared).create_child_context()
        shared['lim'] = 2
        sa = engine(POOL[i])
        sb = sa if i == j else engine(POOL[j])
        res = {}

        def fire():
            def body():
                res['b'] = outcome(lambda: sb.evaluate(data=copy.deepcopy(DATAS[1]), context=shared.create_child_context()))
            th = threading.Thread(target=body)
            th.start()
            th.join()
        hook.update(armed=True, k=k, n=0, fire=fire, pending=False)
        ca = shared.create_child_context()
        da = copy.deepcopy(DATAS[0])
        old = sys.gettrace()
        sys.settrace(tracer)
        try:
            res['a'] = outcome(lambda: sa.evaluate(data=da, context=ca))
        finally:
            sys.settrace(old)
            hook['armed'] = False
        return res, hook['n']
    runs = 0
    points = 0
    pairs = [(i, i) for i in range(len(POOL))] + [(i, (i * 7 + 3) % len(POOL)) for i in range(len(POOL))]
    if quick:
        pairs = pairs[:len(POOL)] + pairs[len(POOL)::4]
    for (i, j) in pairs:
        if INT_LIMIT and ('5000' in POOL[i] or '6000' in POOL[i]):
            continue            # (opcode tracing of the big-number statements is slow; they have their own round)
        _, n = one(i, j, -1)
        points += n
        for k in range(1, min(n, 12 if quick else 60) + 1):
            res, _ = one(i, j, k)
            runs += 1
            rep.evaluations += 2
            for who, idx, d in (('a', i, DATAS[0]), ('b', j, DATAS[1])):
                if who in res and not same(res[who], baseline(idx, d)):
                    rep.violation('C18/global-store-preemption/result-differs',
                                  '%r suspended after its store no. %d to a module global / closure cell while %r ran to completion in another thread: %s gave %r, alone it gives %r' % (
                                      POOL[i], k, POOL[j], 'the suspended one' if who == 'a' else 'the other', res[who], baseline(idx, d)),
                                  {'statements': [POOL[i], POOL[j]], 'store': k})
    return runs, points


INT_LIMIT = sys.get_int_max_str_digits() if hasattr(sys, 'get_int_max_str_digits') else 0
HELPERS = "def(addTen, $ + 10) -> def(sq, $ * $)"


def with_helpers(ctx):
    """the context a host gets by defining yaql-level helper functions once on top of its prepared context"""
    import yaql
    c = yaql.YaqlFactory().create()(HELPERS).evaluate(context=ctx)
    from yaql.language import contexts
    if not isinstance(c, contexts.ContextBase):
        raise RuntimeError('def() did not return a context: %r' % (c,))
    return c


def outcome(fn):
    try:
        return ('ok', fn())
    except Exception as e:  # noqa
        return ('exc', type(e).__name__)


def same(a, b):
    return a[0] == b[0] and (a[1] == b[1] if a[0] == 'exc' else c09.deep_eq(a[1], b[1]))


def run(rep, tier, seed, keep=False):
    import yaql
    quick = tier == 'quick'
    wd = tlc.workdir('c18')
    rec = recorder.Recorder()
    old_switch = sys.getswitchinterval()
    try:
        rng = random.Random(seed * 16807 + 18)

        def pjob(evals, choices, disc, invs, allow=False, term=False, simulate=None, depth=None):
            cfg = ('SPECIFICATION Spec\nCONSTANTS\n Evals = {%s}\n StepChoices <- MCSteps\n HostObjs = {"data", "ctx", "stmt"}\n Discipline = %s\n Sequential = FALSE\n' % (
                ', '.join(str(e) for e in evals), 'TRUE' if disc else 'FALSE') + ''.join('INVARIANT %s\n' % i for i in invs))
            cfg += 'CONSTRAINT PrintTerminal\n' if term else 'VIEW SchedView\n'
            mod = '---- MODULE MC_Purity ----\nEXTENDS Purity\nMCSteps == {%s}\n====\n' % ', '.join(tlaval.to_tla(tuple(c)) for c in choices)
            r = tlc.run('MC_Purity', cfg, wd, modules={'MC_Purity': mod}, workers=1 if term else 8, simulate=simulate, depth=depth,
                        seed=seed + 5 if simulate else None, timeout=1800)
            if not allow:
                tlc.ok(r)
            return r
        inv = ['HostUnchanged', 'NonInterference']
        r = pjob([1, 2], [(5, 5)], True, inv)
        rep.tlc('Purity/M 2 concurrent evaluations x 5 steps', r)
        r = pjob([1, 2, 3], [(3, 3, 3)], True, inv)
        rep.tlc('Purity/M 3 concurrent evaluations x 3 steps', r)
        r = pjob([1, 2], [(3, 3)], False, inv, allow=True)
        if not r.violated:
            raise tlc.TLCError('negative Purity job found no interference')
        rep.tlc('Purity/M without discipline (expected violation %s)' % r.violated[0], r)
        # schedules
        r = pjob([1, 2], [(a, b) for a in range(2, 6) for b in range(2, 6)], True, [], term=True)
        rep.tlc('Purity/G interleavings of 2 evaluations, steps 2..5', r)
        sched2 = {}
        for t in r.printed('T'):
            sched2.setdefault(tuple(t[2]), []).append(list(t[1]))
        r = pjob([1, 2, 3], [(3, 3, 3), (2, 3, 2)], True, [], term=True)
        rep.tlc('Purity/G interleavings of 3 evaluations', r)
        sched3 = {}
        for t in r.printed('T'):
            sched3.setdefault(tuple(t[2]), []).append(list(t[1]))

        engine = yaql.YaqlFactory().create()
        from yaql.language import utils as yutils
        shared = yaql.create_context()
        shared['cfg'] = {'k': [1, 2, 3]}
        shared['fz'] = yutils.convert_input_data(copy.deepcopy(FZ))       # a document the host prepared once (as create_context(data=...) does)
        shared = with_helpers(shared).create_child_context()
        shared['lim'] = 2
        chain0 = c09.snap_chain(shared)
        stmts = [engine(t) for t in POOL]
        base = {}

        def baseline(i, d):
            k = (i, repr(d))
            if k not in base:
                # "alone": a freshly parsed statement in a freshly prepared context of its own, nothing shared with the runs under test
                alone = yaql.create_context()
                alone['cfg'] = {'k': [1, 2, 3]}
                alone['fz'] = yutils.convert_input_data(copy.deepcopy(FZ))
                alone = with_helpers(alone).create_child_context()
                alone['lim'] = 2
                base[k] = outcome(lambda: yaql.YaqlFactory().create()(POOL[i]).evaluate(data=copy.deepcopy(d), context=alone.create_child_context()))
            return base[k]
        for i in range(len(POOL)):
            for d in DATAS:
                baseline(i, d)
        rec.install()
        steps = [count_steps(st, DATAS[0], shared, rec) for st in stmts]
        rep.extra['steps_per_statement'] = dict(zip([p[:30] for p in POOL[:8]], steps[:8]))
        nrun = 0
        nswitch = 0

        # a second shared context, assembled by the host by hand (no '#finalize' in its chain)
        hand = c09.hand_context()
        hand['cfg'] = {'k': [1, 2, 3]}
        hand['fz'] = yutils.convert_input_data(copy.deepcopy(FZ))
        hand_chain0 = c09.snap_chain(hand)
        hbase = {}

        def norm(o):
            if o[0] == 'ok' and hasattr(o[1], '__next__'):
                return ('ok', list(o[1]))
            return o

        def baseline_hand(i, d):
            k = (i, repr(d))
            if k not in hbase:
                alone = c09.hand_context()
                alone['cfg'] = {'k': [1, 2, 3]}
                alone['fz'] = yutils.convert_input_data(copy.deepcopy(FZ))
                hbase[k] = norm(outcome(lambda: yaql.YaqlFactory().create()(POOL[i]).evaluate(data=copy.deepcopy(d), context=alone.create_child_context())))
            return hbase[k]

        def run_schedule(assign, schedule, base=None):
            """assign: list of (stmt index, data); schedule: list of thread ids (1-based); base: the shared context (default: the prepared one)"""
            nonlocal nrun, nswitch, chain0, hand_chain0
            on_hand = base is not None
            shared_ = base if on_hand else shared
            s = sched.Scheduler(schedule, timeout=20.0)
            p = gates_patch(s)
            rec.new_trace()
            bodies = {}
            datas = {}
            for tid, (i, d) in enumerate(assign, 1):
                dd = copy.deepcopy(d)
                datas[tid] = (dd, copy.deepcopy(d))
                ctx = shared_.create_child_context()      # each thread evaluates in its own child (created by the host)

                def body(tid=tid, i=i, dd=dd, ctx=ctx):
                    rec.begin(tid, ctx)
                    try:
                        return stmts[i].evaluate(data=dd, context=ctx)
                    finally:
                        rec.end(tid)
                bodies[tid] = body
            try:
                res = s.run(bodies)
            finally:
                p.__exit__()
            nrun += 1
            rep.evaluations += len(assign)
            if sum(1 for a, b in zip(schedule, schedule[1:]) if a != b) >= 2:
                nswitch += 1
            case = {'statements': [POOL[i] for i, _ in assign], 'data': [d for _, d in assign], 'schedule': schedule}
            for tid, (i, d) in enumerate(assign, 1):
                got = res.get(tid)
                if got is None or got[0] == 'deadlock':
                    raise RuntimeError('scheduler failure: %r %r' % (got, case))
                g = ('ok', got[1]) if got[0] == 'ok' else ('exc', type(got[1]).__name__)
                b = baseline_hand(i, d) if on_hand else baseline(i, d)
                if on_hand:
                    g = norm(g)
                if not same(g, b):
                    rep.violation('C18/schedule/result-differs', 'thread %d evaluating %r on %r under schedule %s gave %r, alone it gives %r' % (
                        tid, POOL[i], d, schedule, g, b), case)
                if not c09.deep_eq(datas[tid][0], datas[tid][1]):
                    rep.violation('C18/schedule/data-mutated', 'thread %d: %r changed its data' % (tid, POOL[i]), case)
            if on_hand:
                if c09.snap_chain(hand) != hand_chain0:
                    rep.violation('C18/schedule/hand-built-shared-context-changed', 'hand-assembled shared context changed after %r' % (case,), case)
                    hand_chain0 = c09.snap_chain(hand)
            elif c09.snap_chain(shared) != chain0:
                rep.violation('C18/schedule/shared-context-changed', 'shared context changed after %r' % (case,), case)
                chain0 = c09.snap_chain(shared)
            if nrun % 499 == 1:
                rep.sample(case)

        pairs = [(i, j) for i in range(len(POOL)) for j in range(len(POOL))]
        rng.shuffle(pairs)
        same_pairs = [(i, i) for i in range(len(POOL))]
        for (i, j) in (same_pairs + pairs)[:(70 if quick else 1200)]:
            k = (min(steps[i], 5), min(steps[j], 5))
            k = (max(k[0], 2), max(k[1], 2))
            ss = sched2.get(k, [])
            pick = ss if len(ss) <= (12 if quick else 60) else rng.sample(ss, 12 if quick else 60)
            for sc in pick:
                run_schedule([(i, DATAS[0]), (j, DATAS[1] if i != j else rng.choice(DATAS))], sc)
        # the same on the hand-assembled shared context (cold: nothing has been evaluated on it before the first schedule)
        for (i, j) in (same_pairs[:6] + pairs[:(10 if quick else 200)]):
            k = (max(min(steps[i], 5), 2), max(min(steps[j], 5), 2))
            ss = sched2.get(k, [])
            for sc in (ss if len(ss) <= 4 else rng.sample(ss, 4)):
                run_schedule([(i, DATAS[0]), (j, DATAS[1])], sc, base=hand)
        # ---- preemption at writes to shared objects.  Purity.tla's discipline says an evaluation writes only what it owns; where
        #      the implementation does write a shared object (context, function or parameter definition, statement node) during
        #      an evaluation, that write is a point where another thread can observe a half-done update: evaluation A is suspended
        #      right after its k-th such write, B runs to completion on the same shared context, A resumes; both must give what
        #      they give alone.  (Nothing to do on a tree that keeps the discipline: there are no such writes.)
        rec.uninstall()
        nwp = write_point_preemption(rep, rng, quick, baseline)
        rep.extra['shared_write_preemption_runs'] = nwp
        ngs, npts = global_store_preemption(rep, rng, quick, baseline)
        rep.extra['global_store_preemption_runs'] = ngs
        rep.extra['global_store_points_seen'] = npts
        rec.install()
        tri = [tuple(rng.sample(range(len(POOL)), 3)) for _ in range(10 if quick else 150)] + [(6, 6, 6), (7, 6, 7)]
        for t3 in tri:
            ss = sched3[(3, 3, 3)]
            for sc in rng.sample(ss, 10 if quick else 60):
                run_schedule([(t3[0], DATAS[0]), (t3[1], DATAS[1]), (t3[2], DATAS[2])], sc)
        # long traces: random interleavings of the real step counts, drawn by TLC's simulator from the same spec
        longpairs = [(i, j) for (i, j) in (same_pairs + pairs)[:(40 if quick else 400)] if steps[i] > 5 or steps[j] > 5]
        choices = sorted(set((min(steps[i], 40), min(steps[j], 40)) for i, j in longpairs))
        if choices:
            r = pjob([1, 2], choices, True, [], term=True, simulate='num=%d' % (len(choices) * (6 if quick else 30)), depth=90, allow=True)
            rep.tlc('Purity/simulate random interleavings of long evaluations', r)
            sims = {}
            for t in r.printed('T'):
                sims.setdefault(tuple(t[2]), []).append(list(t[1]))
            for (i, j) in longpairs:
                k = (min(steps[i], 40), min(steps[j], 40))
                for sc in sims.get(k, [])[:(3 if quick else 10)]:
                    run_schedule([(i, DATAS[0]), (j, DATAS[1])], sc)
        rep.extra['scheduled_runs'] = nrun
        # ---- free-running threads
        sys.setswitchinterval(1e-6)
        wrong = 0
        total = 0
        rounds = 4 if quick else 40
        for rd in range(rounds):
            rec.new_trace()
            results = []
            nthreads = rng.choice([2, 3, 4])
            same_stmt = rng.random() < 0.5
            i0 = rng.randrange(len(POOL))

            def body(k):
                r2 = random.Random(seed * 13 + rd * 101 + k)
                for it in range(30 if quick else 60):
                    i = i0 if same_stmt else r2.randrange(len(POOL))
                    d = DATAS[r2.randrange(3)] if not same_stmt else DATAS[it % 2]
                    ctx = shared.create_child_context()
                    rec.begin(k + 1, ctx)
                    try:
                        g = outcome(lambda: stmts[i].evaluate(data=d, context=ctx))
                    finally:
                        rec.end(k + 1)
                    results.append((i, d, g))
            ths = [threading.Thread(target=body, args=(k,)) for k in range(nthreads)]
            for t in ths:
                t.start()
            for t in ths:
                t.join()
            for i, d, g in results:
                total += 1
                if not same(g, baseline(i, d)):
                    wrong += 1
                    rep.violation('C18/free-running/result-differs', 'free-running threads: %r on %r gave %r, alone %r' % (POOL[i], d, g, baseline(i, d)),
                                  {'statement': POOL[i], 'data': d})
            if c09.snap_chain(shared) != chain0:
                rep.violation('C18/free-running/shared-context-changed', 'shared context changed by free-running evaluations', {})
                chain0 = c09.snap_chain(shared)
        # the two conversions beyond the interpreter's limit against each other, free-running: what one evaluation does to
        # process-wide settings must not change what the other returns
        ibig = [POOL.index("str(pow(10, 5000)).len()"), POOL.index("int('7' * 6000) mod 1000")]
        results = []

        def body2(k):
            for it in range(60 if quick else 400):
                i = ibig[(it + k) % 2]
                ctx = shared.create_child_context()
                results.append((i, DATAS[0], outcome(lambda: stmts[i].evaluate(data=DATAS[0], context=ctx))))
        ths = [threading.Thread(target=body2, args=(k,)) for k in range(4)]
        for t in ths:
            t.start()
        for t in ths:
            t.join()
        for i, d, g in results:
            total += 1
            if not same(g, baseline(i, d)):
                rep.violation('C18/free-running/result-differs', 'free-running threads: %r gave %r, alone %r' % (POOL[i], g, baseline(i, d)), {'statement': POOL[i], 'data': d})
                break
        if hasattr(sys, 'get_int_max_str_digits') and sys.get_int_max_str_digits() != INT_LIMIT:
            rep.violation('C18/free-running/process-setting-changed', 'after the evaluations the interpreter\'s int conversion limit is %r, it was %r' % (
                sys.get_int_max_str_digits(), INT_LIMIT), {})
            sys.set_int_max_str_digits(INT_LIMIT)
        sys.setswitchinterval(old_switch)
        rec.uninstall()
        rep.evaluations += total
        rep.extra['free_running_evaluations'] = total
        events = [dict(e, id=i) for i, e in enumerate(rec.events)]
        rej = c09.validate_purity(rep, wd, events, 'Trace_Purity/V')
        seen = set()
        for tr, seq, clause in rej:
            ev = [e for e in events if e['tr'] == tr and e['seq'] == seq][0]
            key = 'C18/discipline/%s/%s:%s' % (clause, ev['kind'], ev['name'])
            if key in seen:
                continue
            seen.add(key)
            rep.violation(key, 'trace %d: evaluation %d wrote %s %r on object %d (%s)' % (tr, ev['e'], ev['kind'], ev['name'], ev['obj'], clause), {'event': ev})
        rep.traces += nrun + rounds
        rep.nontrivial = nswitch
        rep.extra['write_events_validated'] = len(events)
        rep.extra['traces_truncated_at_cap'] = len(rec.truncated)
        rep.rule = ('pairs/triples of a %d-statement pool (same statement in all threads, different statements) on documents %r; every TLC interleaving '
                    'of (2..5, 2..5) steps (sampled per pair in quick), 3 threads x 3 steps, TLC-simulated interleavings for longer evaluations; '
                    'free-running 2-4 threads. Non-trivial = schedules with >= 2 thread switches.' % (len(POOL), DATAS))
        rep.assumptions = ['gates: Statement.evaluate and runner.call entries (finer races only through the free-running part and the '
                           'schedule-independent ownership discipline)', 'sequential evaluation on a fresh child context is the baseline']
    finally:
        sys.setswitchinterval(old_switch)
        if rec.active:
            rec.uninstall()
        if not keep:
            tlc.cleanup(wd)


def replay(path):
    doc = json.load(open(path))
    print(doc['desc'])
    return 1
