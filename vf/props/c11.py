"""C11 - arguments are evaluated once, in order; lazy ones only on demand.

V  every operand position of every operator, literal constructor, branching function and modelled library function holds a
   uniquely numbered probe tick(id, value); the real tick log is recorded and judged by Trace_Eval.tla (mode "log") against
   the log the reference interpreter Eval.tla produces: same number of ticks per probe (unselected operands of
   and/or/?./switch/switchCase/selectCase/coalesce: zero; eager arguments: one; per-element lambdas: one per element
   consumed), eager probes in the reference order (left to right, positional before keyword), each lambda probe over its
   elements in consumption order.  The interleaving of lazily evaluated lambdas with later siblings is not constrained.
"""
import json
import random

from vf import evalgen as g
from vf import tlc


class Ids(object):
    def __init__(self):
        self.n = 0
        self.eager = []

    def e(self, expr):
        """eager probe"""
        self.n += 1
        self.eager.append(self.n)
        return g.tick(self.n, expr)

    def l(self, expr):
        """probe inside a lambda body"""
        self.n += 1
        return g.tick(self.n, expr)


X = g.var('')


def cases(rng, quick):
    out = []

    def add(build, data=None, note=''):
        ids = Ids()
        ast = build(ids)
        out.append((ast, data if data is not None else [3, 1, 2], ids.eager[:], note))
    c = g.c
    # binary / unary operators, literal constructors, index
    for op in ['+', '-', '*', '/', 'mod', '<', '<=', '>', '>=', '=', '!=']:
        add(lambda i, op=op: g.bn(op, i.e(c(6)), i.e(c(3))))
        add(lambda i, op=op: g.bn(op, g.bn(op, i.e(c(6)), i.e(c(3))), i.e(c(2))))
    add(lambda i: g.bn('in', i.e(c(1)), i.e(g.lst(c(1)))))
    add(lambda i: g.un('-', i.e(c(1))))
    add(lambda i: g.un('not', i.e(c(True))))
    add(lambda i: g.lst(i.e(c(1)), i.e(c(2)), i.e(c(3))))
    add(lambda i: g.lst(g.lst(i.e(c(1)), i.e(c(2))), i.e(c(3)), g.lst(i.e(c(4)))))
    add(lambda i: g.mp((i.e(c('a')), i.e(c(1))), (i.e(c('b')), i.e(c(2)))), note='map-literal')
    add(lambda i: g.idx(i.e(g.lst(c(1), c(2))), i.e(c(0))))
    add(lambda i: g.bn('+', i.e(g.lst(c(1))), i.e(g.lst(c(2)))))
    # short circuits
    for a in (True, False, None, 0, 1):
        for b in (True, False):
            add(lambda i, a=a, b=b: g.bn('and', i.e(c(a)), i.e(c(b))))
            add(lambda i, a=a, b=b: g.bn('or', i.e(c(a)), i.e(c(b))))
            add(lambda i, a=a, b=b: g.bn('or', g.bn('and', i.e(c(a)), i.e(c(b))), i.e(c(7))))
    for recv in (None, {'a': 1}):
        add(lambda i, recv=recv: g.safeattr(i.e(c(recv)), 'a'))
        add(lambda i, recv=recv: g.safemcall(i.e(c(recv)), 'get', i.e(c('a'))))
        add(lambda i, recv=recv: g.safemcall(i.e(c(recv)), 'get', i.e(c('zz')), i.e(c(5))))
    for conds in ([True, True], [False, True], [False, False], [None, 1], [0, 0, 1]):
        add(lambda i, conds=conds: g.call('switch', *[g.pair(i.e(c(x)), i.e(c(10 + k))) for k, x in enumerate(conds)]), note='switch')
        add(lambda i, conds=conds: g.call('selectCase', *[i.e(c(x)) for x in conds]), note='selectCase')
        add(lambda i, conds=conds: g.call('coalesce', *[i.e(c(None if not x else x)) for x in conds]), note='coalesce')
    for n in (-4, -3, -2, -1, 0, 1, 2, 3, 5):
        add(lambda i, n=n: g.mcall(i.e(c(n)), 'switchCase', i.e(c('a')), i.e(c('b')), i.e(c('c'))), note='switchCase')
        add(lambda i, n=n: g.mcall(g.call('selectCase', i.e(c(n > 1)), i.e(c(n > 0))), 'switchCase', i.e(c('a')), i.e(c('b')), i.e(c('c'))))
    # eager arguments of library functions: once each, left to right, positional then keyword; many overloads share them
    add(lambda i: g.mcall(i.e(X), 'insert', i.e(c(1)), i.e(c(9))))
    add(lambda i: g.mcall(i.e(X), 'delete', i.e(c(0)), i.e(c(2))))
    add(lambda i: g.mcall(i.e(X), 'delete', i.e(c(0)), count=i.e(c(2))))
    add(lambda i: g.mcall(i.e(X), 'replace', i.e(c(0)), i.e(c(7)), count=i.e(c(2))))
    add(lambda i: g.mcall(i.e(X), 'take', i.e(c(2))))
    add(lambda i: g.mcall(i.e(X), 'append', i.e(c(1)), i.e(c(2)), i.e(c(3))))
    add(lambda i: g.mcall(i.e(X), 'zip', i.e(g.lst(c(1), c(2)))))
    add(lambda i: g.mcall(i.e(X), 'indexOf', i.e(c(1))))
    add(lambda i: g.mcall(i.e(X), 'contains', i.e(c(1))))
    add(lambda i: g.mcall(i.e(X), 'first', i.e(c(0))))
    add(lambda i: g.mcall(i.e(X), 'sum', i.e(c(0))))
    add(lambda i: g.mcall(i.e(X), 'enumerate', i.e(c(5))))
    add(lambda i: g.call('range', i.e(c(1)), i.e(c(4))))
    add(lambda i: g.call('range', i.e(c(1)), i.e(c(9)), i.e(c(3))))
    add(lambda i: g.call('list', i.e(c(1)), i.e(c(2))))
    add(lambda i: g.call('dict', a=i.e(c(1)), b=i.e(c(2))))
    add(lambda i: g.call('set', i.e(c(1)), i.e(c(2))))
    add(lambda i: g.call('len', i.e(X)))
    add(lambda i: g.call('max', i.e(c(1)), i.e(c(2))))
    add(lambda i: g.mcall(i.e(c({'a': 1})), 'get', i.e(c('b')), i.e(c(3))), data=[1])
    add(lambda i: g.mcall(i.e(c({'a': 1})), 'set', i.e(c('b')), i.e(c(3))), data=[1])
    add(lambda i: g.bn('->', g.call('let', x=i.e(c(1)), y=i.e(c(2))), g.lst(i.e(g.var('x')), i.e(g.var('y')))))
    add(lambda i: g.bn('->', g.call('with', i.e(c(1)), i.e(c(2))), g.bn('+', i.e(g.var('1')), i.e(g.var('2')))))
    # method calls on a yaqlized host object take their own route through the library: same order
    add(lambda i: g.mcall(g.host(), 'hm', i.e(c(1)), i.e(c(2)), note=i.e(c(3))))
    add(lambda i: g.mcall(g.host(), 'hm', i.e(c(1)), b=i.e(c(2)), a=i.e(c(3))))
    add(lambda i: g.safemcall(g.host(), 'hm', i.e(c(1)), i.e(c(2))))
    add(lambda i: g.mcall(g.host(), 'hm', note=i.e(c(1))))
    # accumulate() over a lazy input, handed out total by total: nothing is pulled before the first total is asked for
    for d_ in ([3, 1, 2], [], [5]):
        for k in (0, 1, 2, 5):
            add(lambda i, k=k: g.mcall(g.mcall(g.mcall(i.e(X), 'select', i.l(X)), 'accumulate', g.bn('+', i.l(g.var('1')), g.var('2'))), 'take', c(k)), d_, 'lazy-accumulate')
            add(lambda i, k=k: g.mcall(g.mcall(g.mcall(i.e(X), 'select', i.l(X)), 'accumulate', g.bn('+', i.l(g.var('1')), g.var('2')), i.e(c(10))), 'limit', c(k)), d_, 'lazy-accumulate')
    # generate() handed out element by element: nothing runs for elements nobody asks for
    for k in (0, 1, 2, 3):
        add(lambda i, k=k: g.mcall(g.call('generate', i.e(c(0)), g.bn('<', i.l(X), c(5)), g.bn('+', i.l(X), c(1))), 'take', c(k)), note='lazy-generate')
        add(lambda i, k=k: g.mcall(g.call('generate', i.e(c(1)), g.bn('<', i.l(X), c(3)), g.bn('*', i.l(X), c(2)), g.bn('+', i.l(X), c(10))), 'take', c(k)), note='lazy-generate')
    add(lambda i: g.mcall(g.call('generate', i.e(c(0)), g.bn('<', i.l(X), c(5)), g.bn('+', i.l(X), c(1))), 'first'), note='lazy-generate')
    # the legacy (v0.2) method value.switch(c1 => v1, ...) of yaql.legacy contexts: cases after the matching one are not evaluated
    for recv, conds in ((5, (False, None, True)), (5, (True, True, True)), (1, (False, None, False)), (0, (False, False, None)), (7, (None, True, False))):
        add(lambda i, recv=recv, conds=conds: g.mcall(i.e(c(recv)), 'switch', *[
            g.pair(i.l(c(cd)) if cd is not None else g.bn('>', i.l(g.var('')), c(2)), i.l(g.bn('+', g.var(''), c(k)))) for k, cd in enumerate(conds)]), note='legacy-switch')
    add(lambda i: g.mcall(i.e(c(3)), 'switch'), note='legacy-switch')
    add(lambda i: g.lst(g.mcall(i.e(c(3)), 'switch', g.pair(i.l(c(True)), i.l(c(1))), g.pair(i.l(c(True)), i.l(c(2)))), i.e(c(9))), note='legacy-switch')
    # several named arguments are evaluated in the order they are written, whatever their names
    add(lambda i: g.bn('->', g.call('let', zz=i.e(c(1)), b=i.e(c(2)), a=i.e(c(3))), g.lst(g.var('a'), g.var('b'), g.var('zz'))))
    add(lambda i: g.call('dict', z=i.e(c(1)), a=i.e(c(2)), m=i.e(c(3))))
    add(lambda i: g.call('dict', b=i.e(X), a=i.e(g.mcall(X, 'len'))))
    add(lambda i: g.bn('->', g.call('let', i.e(c(0)), y=i.e(c(2)), x=i.e(c(1))), g.lst(g.var('1'), g.var('x'), g.var('y'))))
    # per-element lambdas: once per element consumed, in consumption order; lazy ones deferred past later siblings
    datas = [[3, 1, 2], [], [1], [2, 2, 1, 0]]
    for d in datas:
        add(lambda i: g.mcall(i.e(X), 'select', i.l(X)), d)
        add(lambda i: g.mcall(i.e(X), 'where', g.bn('>', i.l(X), c(1))), d)
        add(lambda i: g.lst(g.mcall(i.e(X), 'select', i.l(X)), i.e(c(0))), d, 'lazy-then-sibling')
        add(lambda i: g.mcall(g.mcall(i.e(X), 'select', i.l(X)), 'where', g.bn('>', i.l(X), c(1))), d)
        add(lambda i: g.mcall(i.e(X), 'takeWhile', g.bn('>', i.l(X), c(1))), d)
        add(lambda i: g.mcall(i.e(X), 'skipWhile', g.bn('>', i.l(X), c(1))), d)
        add(lambda i: g.mcall(i.e(X), 'any', g.bn('<', i.l(X), c(2))), d)
        add(lambda i: g.mcall(i.e(X), 'all', g.bn('>', i.l(X), c(1))), d)
        add(lambda i: g.mcall(i.e(X), 'indexWhere', g.bn('=', i.l(X), c(1))), d)
        add(lambda i: g.mcall(i.e(X), 'lastIndexWhere', g.bn('=', i.l(X), c(1))), d)
        add(lambda i: g.mcall(i.e(X), 'selectMany', g.lst(i.l(X), c(0))), d)
        add(lambda i: g.mcall(i.e(X), 'distinct', i.l(g.bn('mod', X, c(2)))), d)
        add(lambda i: g.mcall(i.e(X), 'groupBy', i.l(g.bn('mod', X, c(2)))), d)
        add(lambda i: g.mcall(i.e(X), 'groupBy', i.l(g.bn('mod', X, c(2))), i.l(g.bn('+', X, c(1)))), d, 'groupBy-value-then-key')
        add(lambda i: g.mcall(i.e(X), 'toDict', i.l(X), i.l(g.bn('*', X, c(2)))), d)
        # lambdas passed by their (multi-word, convention-translated) keyword stay lazy
        add(lambda i: g.mcall(i.e(X), 'toDict', keySelector=i.l(X), valueSelector=i.l(g.bn('*', X, c(2)))), d, 'keyword-lambda')
        add(lambda i: g.mcall(i.e(X), 'toDict', i.l(X), valueSelector=i.l(g.bn('*', X, c(2)))), d, 'keyword-lambda')
        add(lambda i: g.mcall(i.e(X), 'groupBy', keySelector=i.l(g.bn('mod', X, c(2))), valueSelector=i.l(g.bn('+', X, c(1)))), d, 'keyword-lambda')
        add(lambda i: g.mcall(i.e(X), 'distinct', keySelector=i.l(g.bn('mod', X, c(2)))), d, 'keyword-lambda')
        add(lambda i: g.mcall(i.e(X), 'where', predicate=g.bn('>', i.l(X), c(1))), d, 'keyword-lambda')
        add(lambda i: g.mcall(i.e(X), 'select', selector=i.l(X)), d, 'keyword-lambda')
        add(lambda i: g.mcall(i.e(X), 'aggregate', i.l(g.bn('+', g.var('1'), g.var('2'))), i.e(c(0))), d)
        add(lambda i: g.mcall(i.e(X), 'accumulate', i.l(g.bn('+', g.var('1'), g.var('2'))), i.e(c(0))), d)
        add(lambda i: g.mcall(i.e(X), 'splitWhere', g.bn('=', i.l(X), c(1))), d)
        add(lambda i: g.mcall(i.e(X), 'sliceWhere', g.bn('>', i.l(X), c(1))), d)
        for k in (0, 1, 2, 5):
            add(lambda i, k=k: g.mcall(g.mcall(i.e(X), 'select', i.l(X)), 'take', c(k)), d, 'lazy-take')
            add(lambda i, k=k: g.mcall(g.mcall(i.e(X), 'where', g.bn('>', i.l(X), c(1))), 'limit', c(k)), d, 'lazy-take')
        add(lambda i: g.mcall(g.mcall(i.e(X), 'select', i.l(X)), 'first', i.e(c(9))), d, 'lazy-take')
        add(lambda i: g.mcall(g.mcall(i.e(X), 'select', i.l(X)), 'any'), d, 'lazy-take')
        add(lambda i: g.mcall(g.mcall(i.e(X), 'where', g.bn('<', i.l(X), c(2))), 'any'), d, 'lazy-take')
        add(lambda i: g.mcall(g.mcall(i.e(X), 'where', g.bn('<', i.l(X), c(2))), 'first', i.e(c(9))), d, 'lazy-take')
        add(lambda i: g.mcall(i.e(X), 'orderBy', i.l(X)), d, 'orderBy')
        add(lambda i: g.mcall(g.mcall(i.e(X), 'orderBy', i.l(g.bn('mod', X, c(2)))), 'thenBy', i.l(X)), d, 'orderBy')
        add(lambda i: g.mcall(i.e(X), 'orderByDescending', i.l(X)), d, 'orderBy')
        add(lambda i: g.mcall(i.e(X), 'join', i.e(g.lst(c(1), c(2))), g.bn('=', i.l(g.var('1')), g.var('2')), i.l(g.lst(g.var('1'), g.var('2')))), d, 'join')
    # random compositions of the above shapes
    ops = ['+', '*', '<', '=', 'and', 'or']

    def rnd(i, depth):
        k = rng.random()
        if depth <= 0 or k < 0.25:
            return i.e(c(rng.choice([0, 1, 2, 3, True, False, None])))
        if k < 0.55:
            return g.bn(rng.choice(ops), rnd(i, depth - 1), rnd(i, depth - 1))
        if k < 0.65:
            return g.lst(rnd(i, depth - 1), rnd(i, depth - 1))
        if k < 0.75:
            return g.call('coalesce', rnd(i, depth - 1), rnd(i, depth - 1))
        if k < 0.85:
            return g.call('switch', g.pair(rnd(i, depth - 1), rnd(i, depth - 1)), g.pair(i.e(c(True)), rnd(i, depth - 1)))
        if k < 0.93:
            return g.mcall(g.mcall(i.e(g.lst(c(1), c(2), c(3))), 'select', g.bn('+', i.l(X), c(1))), 'sum', i.e(c(0)))
        return g.mcall(g.call('selectCase', rnd(i, depth - 1), rnd(i, depth - 1)), 'switchCase', rnd(i, depth - 1), rnd(i, depth - 1), rnd(i, depth - 1))
    for _ in range(3000 if quick else 120000):
        add(lambda i: rnd(i, rng.choice([2, 3, 4])), None, 'random')
    return out


def run(rep, tier, seed, keep=False):
    quick = tier == 'quick'
    wd = tlc.workdir('c11')
    try:
        rng = random.Random(seed * 4241 + 11)
        real = g.Real()
        from yaql import yaqlization

        class HostProbe(object):
            def hm(self, *a, **k):
                return list(a) + [k[n] for n in ('a', 'b', 'note') if n in k]
        host = yaqlization.yaqlize(HostProbe())
        events = []
        desc = {}
        from yaql import legacy as _legacy
        real_legacy = g.Real()
        real_legacy.ctx = _legacy.create_context(tuples=False)
        real_legacy.ctx.register_function(real_legacy.tick, name='tick')
        for ast, data, eager, note in cases(rng, quick):
            text = g.render(ast)
            res, log = (real_legacy if note == 'legacy-switch' else real).run(text, data, raw_context={'h': host})
            i = len(events)
            events.append(g.event(i, ast, data, res, log=log, eager=eager, mode='log'))
            desc[i] = (text, data, note, res, log)
        # an ordering is sorted once: traversing the same ordering object again (bound by let, or counted by assert before it is
        # used) runs no key selector again. The selectors' log of ONE traversal is what the known finding C11/tick-count/orderBy
        # pins down; the logs of these forms are compared with it
        nre = 0
        for d in ([3, 1, 2], [1], [2, 2, 1, 0], [5, 4, 3, 2, 1, 0]):
            for ordering in ('$.orderBy(tick(1, $))', '$.orderByDescending(tick(1, $))', '$.orderBy(tick(1, $ mod 2)).thenBy(tick(2, $))',
                             '$.orderBy(tick(1, $ mod 2)).thenByDescending(tick(2, $))'):
                one, log1 = real.run(ordering, d)
                for form in ('let(o => %s) -> [$o.first(), $o.last()]', 'let(o => %s) -> [$o.toList(), $o.toList()]', '%%s.assert($.count() = %d).first()' % len(d),
                             'let(o => %s) -> [$o.count(), $o.toList()]', '[%s].select([$.first(), $.toList()])'):
                    text = form % ordering
                    res, log2 = real.run(text, d)
                    nre += 1
                    rep.evaluations += 1
                    if res[0] == 'e' or [t[0] for t in log2] != [t[0] for t in log1]:
                        rep.violation('C11/retraversal/orderBy', '%s on %r: result %r, the key selectors ran %s; one traversal of the same ordering (%s) runs them %s' % (
                            text, d, res, [t[0] for t in log2], ordering, [t[0] for t in log1]), {'text': text, 'data': d})
        rep.extra['ordering_retraversals_checked'] = nre
        rej, skipped, skipped_ids = g.validate(rep, wd, events, 'Trace_Eval/C11')
        for eid, clause in rej:
            text, data, note, res, log = desc[eid]
            fn = note if note and note != 'random' else (events[eid]['ast'][2] if events[eid]['ast'][0] == 'mcall' else events[eid]['ast'][1] if isinstance(events[eid]['ast'][1], str) else 'expr')
            rep.violation('C11/%s/%s' % (clause, fn), '%s on %r: real result %r, tick log %s; clause %s' % (text, data, res, [t[0] for t in log], clause),
                          {'text': text, 'data': data})
        rep.traces += len(events)
        rep.evaluations += len(events)
        rep.nontrivial = sum(1 for j in desc if len(desc[j][4]) >= 2 and j not in skipped_ids)
        rep.extra['skipped_by_model'] = skipped
        for j in (0, 60, len(events) - 3):
            rep.sample({'text': desc[j][0], 'data': desc[j][1], 'real_log': [t[0] for t in desc[j][4]]})
        rep.rule = ('probes in every operand position of 11 binary and 2 unary operators, list/map/index constructors, and/or, ?., switch, '
                    'selectCase, switchCase, coalesce, ~25 eager-argument library calls (positional and keyword), 24 per-element lambda shapes x 4 '
                    'inputs, and %d random compositions. Non-trivial = evaluations with >= 2 ticks that the model judges.' % (3000 if quick else 120000))
        rep.assumptions = ['the relative order of lazily evaluated lambda probes and later eager siblings is not constrained (reading decision 3.0)']
    finally:
        if not keep:
            tlc.cleanup(wd)


def replay(path):
    doc = json.load(open(path))
    print(doc['desc'])
    return 1
