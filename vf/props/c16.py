"""C16 - literals denote exactly the values they spell.

M  Lexing.tla / MC_Lexing: every string over the class alphabet (quotes, backslash, escape letters, hex/octal digits)
   up to the bound has a single- and double-quoted spelling that reads back (RoundTripQuoted); for the verbatim style
   TLC finds the counterexample (a lone backslash) and proves by exhaustive search that exactly the values with an odd
   backslash run before a back quote or the end have no spelling (VerbatimIffSpellable, NoOtherSpelling).
G  every raw body up to the bound x 3 styles with the value the model says it denotes, replayed through the real parser.
V  code points of the BMP (+ astral sample) raw and in every escape form, generated strings through Quote, integer
   literals up to thousands of digits, identifier-shaped words: recorded and judged by Trace_Lexing.tla.
"""
import json
import random
import unicodedata

from vf import tlc, tlaval, trace

ALPHABET = [39, 34, 96, 92, 120, 117, 85, 78, 123, 125, 97, 49, 56, 103, 110, 32]
Q = {'single': "'", 'double': '"', 'verbatim': '`'}


def py_quote(v, style):
    out = []
    for c in v:
        if style == 'verbatim':
            out.append('\\`' if c == '`' else c)
        else:
            out.append('\\' + c if c in ('\\', Q[style]) else c)
    return ''.join(out)


class Eng(object):
    def __init__(self):
        import yaql
        from yaql.language import expressions, exceptions
        self.engine = yaql.YaqlFactory().create()
        self.ex = expressions
        self.exc = exceptions

    def literal(self, text):
        """-> ('value', str) | ('error', cls) | ('other', what)"""
        try:
            st = self.engine(text)
        except self.exc.YaqlParsingException as e:
            return ('error', type(e).__name__)
        except Exception as e:  # noqa
            return ('other', 'raises ' + type(e).__name__)
        e = st.expression
        if type(e) is self.ex.Constant and isinstance(e.value, str):
            return ('value', e.value)
        return ('other', type(e).__name__)

    def parse(self, text):
        try:
            return ('ok', self.engine(text).expression)
        except self.exc.YaqlParsingException as e:
            return ('error', type(e).__name__)
        except Exception as e:  # noqa
            return ('other', type(e).__name__)


def cps(s):
    return [ord(c) for c in s]


def run(rep, tier, seed, keep=False):
    quick = tier == 'quick'
    wd = tlc.workdir('c16')
    try:
        eng = Eng()
        alpha = '{' + ', '.join(str(a) for a in ALPHABET) + '}'

        def cfg(mode, maxlen, invs, alphabet=alpha):
            return ('SPECIFICATION Spec\nCONSTANTS\n Alphabet = %s\n MaxLen = %d\n Mode = "%s"\n' % (alphabet, maxlen, mode) +
                    ''.join('INVARIANT %s\n' % i for i in invs))
        # ---- M
        r = tlc.ok(tlc.run('MC_Lexing', cfg('roundtrip', 3 if quick else 4, ['RoundTripQuoted', 'VerbatimIffSpellable']), wd, workers=16))
        rep.tlc('Lexing/M RoundTripQuoted + VerbatimIffSpellable', r)
        r = tlc.ok(tlc.run('MC_Lexing', cfg('search', 3, ['NoOtherSpelling'], '{92, 96, 97, 10}'), wd, workers=16))
        rep.tlc('Lexing/M NoOtherSpelling (exhaustive search of verbatim bodies)', r)
        r = tlc.run('MC_Lexing', cfg('roundtrip', 2, ['VerbatimAlwaysSpellable']), wd, workers=1)
        rep.tlc('Lexing/M verbatim as stated (expected counterexample)', r)
        if 'VerbatimAlwaysSpellable' in r.violated:
            import re
            m = re.search(r'body = (<<.*?>>)', r.out)
            cex = tlaval.parse(m.group(1)) if m else None
            rep.extra['verbatim_counterexample'] = list(cex) if cex is not None else None
            rep.violation('C16/verbatim/no-spelling/odd-backslash-run-before-backquote-newline-or-end',
                          'model level: value %r has no back-quoted spelling (TLC counterexample of VerbatimAlwaysSpellable)' % (cex,),
                          {'value': list(cex or ())})
        else:
            rep.note('verbatim style: TLC found no unspellable value (the known finding did not reproduce)')
        # ---- G
        glen = 3 if quick else 4
        dump = wd + '/g'
        r = tlc.ok(tlc.run('MC_Lexing', cfg('bodies', glen, []), wd, workers=16, dump=dump))
        rep.tlc('Lexing/G raw bodies <= %d x 3 styles' % glen, r)
        n = 0
        nvalue = 0
        for st in tlaval.parse_dump(dump + '.dump'):
            body = ''.join(chr(c) for c in st['body'])
            style = str(st['style'])
            lit = st['lit']
            kind = str(lit['kind'])
            n += 1
            if kind == 'notoken':
                continue
            got = eng.literal(Q[style] + body + Q[style])
            rep.evaluations += 1
            if kind == 'value':
                nvalue += 1
                want = ''.join(chr(c) for c in lit['v'])
                if got != ('value', want):
                    rep.violation('C16/G/%s/value' % style, 'literal %s%s%s: real %r, model value %r' % (Q[style], body, Q[style], got, want),
                                  {'text': Q[style] + body + Q[style]})
            else:
                if got[0] != 'error':
                    rep.violation('C16/G/%s/malformed-escape' % style, 'literal %s%s%s: real %r, model: malformed escape (error)' % (Q[style], body, Q[style], got),
                                  {'text': Q[style] + body + Q[style]})
            if n % 4001 == 1:
                rep.sample({'literal': Q[style] + body + Q[style], 'model': kind, 'real': list(got)})
        rep.exhaustive = True
        rep.extra['G_bodies'] = n
        rep.nontrivial = nvalue
        # ---- V
        rng = random.Random(seed * 31337 + 16)
        events = []
        desc = {}

        def add(ev, d):
            ev['id'] = len(events)
            desc[ev['id']] = d
            events.append(ev)

        def str_event(style, body, names=()):
            got = eng.literal(Q[style] + body + Q[style])
            add({'act': 'str', 'style': style, 'body': cps(body), 'names': [[cps(nm), cp] for nm, cp in names],
                 'kind': got[0], 'v': cps(got[1]) if got[0] == 'value' else []}, 'literal %s%r%s -> %r' % (Q[style], body, Q[style], got))

        def quote_event(style, v):
            sp = py_quote(v, style)
            got = eng.literal(Q[style] + sp + Q[style])
            add({'act': 'quote', 'style': style, 'v': cps(v), 'spelling': cps(sp), 'back_kind': got[0],
                 'back': cps(got[1]) if got[0] == 'value' else []}, 'value %r spelled %s%s%s reads back %r' % (v, Q[style], sp, Q[style], got))
        # code points: BMP (strided in quick) + astral sample, raw and in each escape form
        stride = 61 if quick else 1
        cpl = list(range(0, 0x10000, stride)) + [0, 9, 10, 13, 39, 34, 96, 92, 0x7f, 0x80, 0xff, 0x100, 0xd7ff, 0xd800, 0xdfff, 0xe000, 0xfffe, 0xffff]
        cpl += [rng.randint(0x10000, 0x10ffff) for _ in range(200 if quick else 2000)] + [0x10000, 0x10ffff, 0x1f600]
        for cp in cpl:
            ch = chr(cp)
            for style in ('single', 'double', 'verbatim'):
                quote_event(style, ch)
                if cp % 7 == 0 or cp < 256:
                    quote_event(style, 'a' + ch + '\\')
                    quote_event(style, ch + ch)
            forms = ['\\x%02x' % cp] if cp < 256 else []
            forms += ['\\u%04x' % cp, '\\u%04X' % cp] if cp < 0x10000 else []
            forms += ['\\U%08x' % cp]
            if cp < 512:
                forms += ['\\%o' % cp, '\\%03o' % cp]
            try:
                nm = unicodedata.name(ch)
                forms.append(('\\N{%s}' % nm, [(nm, cp)]))
            except ValueError:
                pass
            for f in forms:
                names = ()
                if isinstance(f, tuple):
                    f, names = f
                style = rng.choice(['single', 'double'])
                str_event(style, f, names)
                if cp % 5 == 0:
                    str_event(style, 'z' + f + '1', names)
                    str_event('verbatim', f, names)
        # malformed and look-alike escapes
        for f in ['\\x', '\\xz', '\\x1', '\\xzz', '\\u123', '\\u12g4', '\\U0011000', '\\U00110000', '\\Uffffffff', '\\N{}', '\\N{foo}', '\\N{', '\\N',
                  '\\8', '\\9', '\\1234', '\\400', '\\777', '\\0', '\\a\\b\\f\\n\\r\\t\\v', '\\\\x41', '\\\\\\x41', '\\q', '\\ ', '\\N{LATIN SMALL LETTER A}',
                  '\\N{latin small letter a}', '\\u00e9\\u00E9', '\\x41\\x', '\\U0001F600', '\\ud83d\\ude00']:
            for style in ('single', 'double', 'verbatim'):
                names = [('LATIN SMALL LETTER A', 97), ('latin small letter a', 97)]
                str_event(style, f, names)
        # generated strings biased to quotes, backslashes and escape look-alikes
        pool = ['\\', '\\', "'", '"', '`', 'x', 'u', 'U', 'N', '{', '}', '0', '7', '8', 'a', 'f', 'n', 'é', '中', ' ', '\n', '\t', '\U0001f600']
        for _ in range(3000 if quick else 100000):
            v = ''.join(rng.choice(pool) for _ in range(rng.randint(0, 8)))
            quote_event(rng.choice(['single', 'double', 'verbatim']), v)
        # the module-level convenience entry yaql.eval(text) keeps parsed texts: literals that differ only in their blanks are
        # different values all the same (each value is evaluated after its look-alikes)
        import yaql as _yaql

        def eval_event(style, v):
            sp = py_quote(v, style)
            try:
                got = _yaql.eval(Q[style] + sp + Q[style])
                got = ('value', got) if isinstance(got, str) else ('other', type(got).__name__)
            except Exception as e:  # noqa
                got = ('error', type(e).__name__)
            add({'act': 'quote', 'style': style, 'v': cps(v), 'spelling': cps(sp), 'back_kind': got[0],
                 'back': cps(got[1]) if got[0] == 'value' else []}, 'yaql.eval of %s%s%s (value %r) gives %r' % (Q[style], sp, Q[style], v, got))
        for style in ('single', 'double', 'verbatim'):
            for v in ['a b', 'a  b', 'a   b', 'a\tb', 'a \tb', 'a\nb', 'a \n b', ' a b', 'a b ', 'a\u00a0b', 'a\u2003b', 'a b', '  ', ' ', '\t']:
                eval_event(style, v)
        # two literals in one expression (a token must end where the model says it ends)
        def spellable(v, style):
            if style != 'verbatim':
                return True
            run = 0
            for c in v + '`':
                if c in '`\n' and run % 2:
                    return False
                run = run + 1 if c == '\\' else 0
            return True
        for _ in range(1500 if quick else 30000):
            v1 = ''.join(rng.choice(pool) for _ in range(rng.randint(0, 6)))
            v2 = ''.join(rng.choice(pool) for _ in range(rng.randint(0, 6)))
            s1, s2 = rng.choice(list(Q)), rng.choice(list(Q))
            if not (spellable(v1, s1) and spellable(v2, s2)):
                continue
            sp1, sp2 = py_quote(v1, s1), py_quote(v2, s2)
            text = '[%s%s%s, %s%s%s]' % (Q[s1], sp1, Q[s1], Q[s2], sp2, Q[s2])
            r_ = eng.parse(text)
            ok = 0
            b1 = b2 = ''
            if r_[0] == 'ok' and type(r_[1]).__name__ == 'ListExpression' and len(r_[1].args) == 2 and \
                    all(type(a).__name__ == 'Constant' and isinstance(a.value, str) for a in r_[1].args):
                ok, b1, b2 = 1, r_[1].args[0].value, r_[1].args[1].value
            add({'act': 'quote2', 'style1': s1, 'style2': s2, 'v1': cps(v1), 'v2': cps(v2), 'sp1': cps(sp1), 'sp2': cps(sp2), 'ok': ok,
                 'back1': cps(b1), 'back2': cps(b2)}, 'expression %s -> %r' % (text, r_ if not ok else (b1, b2)))
        # two numerals with equal values but different spellings (5 and 5.0): in one expression, and in two statements
        def num_info(node, text):
            if type(node).__name__ != 'Constant' or type(node.value) not in (int, float):
                return 'other', [], 0
            if type(node.value) is int:
                return 'int', trace.enc_int(node.value)[2], 0
            return 'float', [], 1 if repr(node.value) == repr(float(text)) else 0
        nums = ['0', '1', '5', '7', '10', '42', '100', '255', '1000', '65536', '4294967296', '9007199254740993', '18446744073709551616']
        variants = lambda n: [n, n + '.0', n + '.00', '0' + n if n != '0' else '00', n + '.5']
        held = []
        for n in nums:
            vs = variants(n)
            for t1 in vs:
                for t2 in vs:
                    if t1 == t2:
                        continue
                    r_ = eng.parse('[%s, %s]' % (t1, t2))
                    if r_[0] == 'ok' and type(r_[1]).__name__ == 'ListExpression' and len(r_[1].args) == 2:
                        i1, i2 = num_info(r_[1].args[0], t1), num_info(r_[1].args[1], t2)
                    else:
                        i1 = i2 = ('other', [], 0)
                    add({'act': 'num2', 't1': cps(t1), 't2': cps(t2), 'k1': i1[0], 'k2': i2[0], 'limbs1': i1[1], 'limbs2': i2[1], 'fok1': i1[2], 'fok2': i2[2]},
                        'expression [%s, %s] -> %r' % (t1, t2, r_))
                    ra, rb = eng.parse(t1), eng.parse(t2)
                    held.append((ra, rb))      # hosts cache parsed statements: earlier ones stay alive
                    i1 = num_info(ra[1], t1) if ra[0] == 'ok' else ('other', [], 0)
                    i2 = num_info(rb[1], t2) if rb[0] == 'ok' else ('other', [], 0)
                    add({'act': 'num2', 't1': cps(t1), 't2': cps(t2), 'k1': i1[0], 'k2': i2[0], 'limbs1': i1[1], 'limbs2': i2[1], 'fok1': i1[2], 'fok2': i2[2]},
                        'statements %s then %s (first held) -> %r, %r' % (t1, t2, ra, rb))
        # integers: 1..4000 digits (int-string limit is 4300 by default)
        lens = [1, 2, 3, 4, 5, 8, 9, 10, 11, 19, 20, 21, 39, 40, 41, 100, 1000, 4000, 4299, 4300] + [rng.randint(1, 4300) for _ in range(20 if quick else 300)]
        for L in lens:
            digits = [rng.randint(0 if i else 1, 9) for i in range(L)] if rng.random() < 0.8 else [0] * (L - 1) + [rng.randint(0, 9)]
            text = ''.join(str(d) for d in digits)
            r_ = eng.parse(text)
            if r_[0] == 'ok' and type(r_[1]).__name__ == 'Constant' and type(r_[1].value) is int:
                add({'act': 'int', 'digits': digits, 'kind': 'int', 'limbs': trace.enc_int(r_[1].value)[2]}, 'integer literal of %d digits' % L)
            else:
                add({'act': 'int', 'digits': digits, 'kind': 'other', 'limbs': []}, 'integer literal of %d digits -> %r' % (L, r_))
        # decimals printable without exponent: environment oracle float(text)
        nfl = 0
        for _ in range(300 if quick else 5000):
            a = ''.join(rng.choice('0123456789') for _ in range(rng.randint(1, 20)))
            b = ''.join(rng.choice('0123456789') for _ in range(rng.randint(1, 20)))
            text = a + '.' + b
            r_ = eng.parse(text)
            nfl += 1
            if not (r_[0] == 'ok' and type(r_[1].value) is float and repr(r_[1].value) == repr(float(text))):
                rep.violation('C16/decimal-literal', 'decimal literal %s parsed as %r, Python float gives %r' % (text, r_, float(text)), {'text': text})
        rep.extra['decimal_literals_vs_python_float'] = nfl
        # keywords
        words = ['true', 'false', 'null', 'True', 'NULL', 'nul', 'truex', 'a', '_a', 'a_', '_', 'a1', 'é', 'ключ', 'x__y', '__x', '__', '___a', '__init__',
                 'trueish', 'nulls', 'Infinity', 'nan', 'e10', 'x1y2']
        for w in words:
            r_ = eng.parse(w)
            if r_[0] == 'error':
                got = 'REJECT'
            elif r_[0] == 'ok' and type(r_[1]).__name__ == 'KeywordConstant' and r_[1].value == w:
                got = 'TEXT'
            elif r_[0] == 'ok' and type(r_[1]).__name__ == 'Constant' and r_[1].value is True:
                got = 'TRUE'
            elif r_[0] == 'ok' and type(r_[1]).__name__ == 'Constant' and r_[1].value is False:
                got = 'FALSE'
            elif r_[0] == 'ok' and type(r_[1]).__name__ == 'Constant' and r_[1].value is None:
                got = 'NULL'
            else:
                got = 'OTHER'
            add({'act': 'kw', 'word': w.encode('ascii', 'backslashreplace').decode(), 'dunder': 1 if w.startswith('__') else 0, 'got': got}, 'word %r -> %s' % (w, got))
        rej = trace.validate(rep, wd, 'Trace_Lexing', events, 'Trace_Lexing/V', heap='12g')
        for eid, clause in rej:
            ev = events[eid]
            if clause == 'verbatim-unspellable-value-read-back':
                rep.note('model divergence: %s' % desc[eid])
                continue
            if clause == 'no-verbatim-spelling':
                key = 'C16/verbatim/no-spelling/odd-backslash-run-before-backquote-newline-or-end'
            else:
                key = 'C16/%s/%s/%s' % (ev['act'], ev.get('style', ''), clause)
            rep.violation(key, '%s: clause %s' % (desc[eid], clause), {'event': {k: v for k, v in ev.items() if k != 'names'}})
        rep.traces += len(events)
        rep.evaluations += len(events)
        rep.sample({'event': events[5], 'what': desc[5]})
        rep.sample({'event': events[len(events) // 2], 'what': desc[len(events) // 2]})
        rep.rule = ('G: all raw bodies of length <= %d over a 16-symbol class alphabet x 3 styles (non-trivial = bodies that are one string '
                    'token with a value); V: %d code points raw and in every escape form, malformed escapes, %s generated strings through '
                    'Quote, integer literals up to 4300 digits, decimals, %d words.' % (glen, len(cpl), '3000' if quick else '100000', len(words)))
        rep.assumptions = ['unicodedata supplies the \\N{name} table (environment)', 'float(text) is the oracle for decimal literals',
                           'operator words (and, or, not, in, mod, is...) are not literals and are excluded']
    finally:
        if not keep:
            tlc.cleanup(wd)


def replay(path):
    doc = json.load(open(path))
    print(doc['desc'])
    return 1
