"""C04 - core evaluation semantics follow the language reference.

V  Eval.tla is the reference interpreter written from the language reference: literals, `$`/`$n`/`$name`, list/map/index
   expressions, member access (mapped over collections), method chains, lambdas (arguments published in a child of the
   DEFINING scope), let / -> / def / with / unpack / as, shadowing, closures, unknown variables = null.
   Random well-formed expressions of the fragment (depth <= 4..6, biased to nest lambdas inside let-chains inside lambdas,
   to reuse one name at several levels and to call def-ined closures from scopes that rebind their free variables) are
   evaluated on the real engine against JSON-like documents; TLC evaluates the same ASTs with Eval.tla (Trace_Eval.tla).
"""
import json
import random

from vf import evalgen as g
from vf import tlc

DOCS = [
    {'a': 1, 'l': [1, 2, 3], 'd': {'k': [{'v': 1}, {'v': 2}]}, 'n': None, 's': 'txt'},
    [1, 2, 3],
    [],
    {'l': [], 'a': 0, 'd': {'k': []}, 'n': 5, 's': ''},
    [[1, 2], [3]],
    5,
    None,
]
NAMES = ['x', 'y']
# names that are also names of parameters inside the implementation (hidden or not): a variable name is just a name
HOSTILE = ['context', 'engine', 'args', 'kwargs', 'receiver', 'self', 'name', 'func', 'data', 'sender', 'expr', 'value', 'collection', 'selector']


class Gen(object):
    def __init__(self, rng, maxdepth):
        self.rng = rng
        self.maxdepth = maxdepth
        self.fn = 0
        self.needs_dict = False

    def atom(self, sc):
        r = self.rng
        k = r.random()
        if k < 0.3:
            return g.c(r.choice([0, 1, 2, 3, 5, None, True]))
        if k < 0.75:
            names = ['', '1', '2', 'x', 'y', 'z'] + list(sc.get('vars', []))
            return g.var(r.choice(names))
        if k < 0.85:
            return g.lst(g.c(1), g.c(2), g.c(3))
        if k < 0.9:
            self.needs_dict = True
            return g.attr(g.var('doc'), r.choice(['a', 'l', 'n']))
        if k < 0.94:
            self.needs_dict = True
            return g.idx2(g.var('doc'), g.c(r.choice(['a', 'n', 'zz'])), g.c(r.choice([0, 7])))
        return g.c('s')

    def intexpr(self, d, sc):
        """an expression that is usually an integer"""
        r = self.rng
        if d <= 0 or r.random() < 0.35:
            return r.choice([g.c(r.randint(0, 4)), g.var(r.choice(['', 'x', 'y', '1', '2'])), g.var('x')])
        k = r.random()
        if k < 0.5:
            return g.bn(r.choice(['+', '-', '*']), self.intexpr(d - 1, sc), self.intexpr(d - 1, sc))
        if k < 0.62:
            return g.mcall(self.listexpr(d - 1, sc), r.choice(['len', 'sum', 'first', 'last']), *([g.c(0)] if r.random() < 0.6 else []))
        if k < 0.7:
            return g.safemcall(self.listexpr(d - 1, sc), r.choice(['len', 'sum']), *([g.c(0)] if r.random() < 0.5 else []))
        if k < 0.85:
            return self.scoped(d, sc, self.intexpr)
        return g.idx(self.listexpr(d - 1, sc), g.c(r.randint(-1, 2)))

    def listexpr(self, d, sc):
        r = self.rng
        if d <= 0 or r.random() < 0.25:
            return r.choice([g.lst(g.c(1), g.c(2), g.c(3)), g.var(''), g.lst(g.var('x'), g.var('y')), g.lst(), g.var('x')])
        k = r.random()
        if k < 0.3:
            return g.mcall(g.mcall(self.listexpr(d - 1, sc), 'select', self.lam(d - 1, sc, 1)), 'toList')
        if k < 0.45:
            return g.mcall(g.mcall(self.listexpr(d - 1, sc), 'where', g.bn(r.choice(['>', '<', '=', '!=']), self.lam(d - 1, sc, 1), g.c(r.randint(0, 3)))), 'toList')
        if k < 0.5:
            # a lambda passed by keyword is a lambda all the same: its names resolve where it is written, `$` is the element
            kk = r.random()
            if kk < 0.4:
                return g.mcall(g.mcall(self.listexpr(d - 1, sc), 'distinct', keySelector=self.lam(d - 1, sc, 1)), 'toList')
            if kk < 0.7:
                return g.mcall(g.mcall(g.mcall(self.listexpr(d - 1, sc), 'toDict', g.var(''), valueSelector=self.lam(d - 1, sc, 1)), 'values'), 'toList')
            return g.mcall(g.mcall(self.listexpr(d - 1, sc), 'select', selector=self.lam(d - 1, sc, 1)), 'toList')
        if k < 0.55:
            return g.lst(*[self.expr(d - 1, sc) for _ in range(r.randint(0, 3))])
        if k < 0.65:
            return g.mcall(g.mcall(self.listexpr(d - 1, sc), r.choice(['skip', 'take']), g.c(r.randint(0, 2))), 'toList')
        if k < 0.8:
            return self.scoped(d, sc, self.listexpr)
        if k < 0.9:
            self.needs_dict = True
            return g.mcall(g.attr(g.attr(g.attr(g.var('doc'), 'd'), 'k'), 'v'), 'toList')
        return g.mcall(self.listexpr(d - 1, sc), 'aggregate', g.lst(g.var('1'), g.var('2'), g.mcall(g.mcall(g.lst(g.c(7)), 'select', g.var('2')), 'toList')), g.c(0))

    def lam(self, d, sc, arity):
        """body of a lambda with `arity` positional arguments; may refer to enclosing names and to the outer lambda's $2"""
        r = self.rng
        sc2 = dict(sc, lam=arity)
        k = r.random()
        if k < 0.3:
            return g.var(r.choice(['', '1', 'x', 'y', '2']))
        if k < 0.7:
            return g.bn(r.choice(['+', '*', '-']), g.var(r.choice(['', '1'])), self.intexpr(d - 1, sc2))
        if k < 0.85:
            return self.scoped(d, sc2, self.intexpr)
        return g.lst(g.var(''), self.expr(d - 1, sc2))

    def scoped(self, d, sc, body):
        """context constructs around a body"""
        r = self.rng
        k = r.random()
        name = r.choice(NAMES) if r.random() < 0.9 else r.choice(HOSTILE)
        sc2 = dict(sc, vars=set(sc.get('vars', ())) | {name})
        if k < 0.35:
            kws = {name: self.expr(d - 1, sc)}
            if r.random() < 0.3:
                kws[r.choice(NAMES)] = self.expr(d - 1, sc)
            return g.bn('->', g.call('let', **kws), body(d - 1, sc2))
        if k < 0.5:
            return g.bn('->', g.call('with', self.expr(d - 1, sc), self.expr(d - 1, sc)), body(d - 1, sc))
        if k < 0.7:
            self.fn += 1
            f = 'f%d' % (self.fn % 3)
            fbody = self.rng.choice([g.var('x'), g.bn('+', g.var('1'), g.var('x')), g.lst(g.var('1'), g.var('2'), g.var('y')), self.intexpr(d - 1, sc)])
            inner = g.bn('->', g.call('let', **{'x': g.c(r.randint(5, 9))}), g.call(f, self.intexpr(d - 2, sc2)))
            if r.random() < 0.3:
                inner = g.lst(g.call(f, **{r.choice(NAMES): self.intexpr(d - 2, sc)}), g.var(r.choice(NAMES)), body(d - 2, sc))
            if r.random() < 0.5:
                inner = g.lst(g.call(f, g.c(1), g.c(2)), g.call(f, g.c(3)), body(d - 2, sc))
            return g.bn('->', g.call('def', g.kwd(f), fbody), inner)
        if k < 0.8:
            return g.bn('->', g.mcall(g.lst(self.expr(d - 1, sc), self.expr(d - 1, sc)), 'unpack', g.kwd(name), g.kwd('y' if name == 'x' else 'x')), body(d - 1, sc2))
        if k < 0.88:
            return g.bn('->', g.mcall(g.lst(self.expr(d - 1, sc), self.expr(d - 1, sc)), 'unpack'), g.lst(g.var('1'), g.var('2'), body(d - 1, sc)))
        # let chain with the same name at several levels
        return g.bn('->', g.call('let', **{name: g.c(1)}), g.bn('->', g.call('let', **{name: g.bn('+', g.var(name), g.c(1))}), g.lst(g.var(name), body(d - 2, sc2))))

    def expr(self, d, sc):
        r = self.rng
        if d <= 0:
            return self.atom(sc)
        k = r.random()
        if k < 0.2:
            return self.atom(sc)
        if k < 0.45:
            return self.intexpr(d, sc)
        if k < 0.7:
            return self.listexpr(d, sc)
        if k < 0.85:
            return self.scoped(d, sc, self.expr)
        if k < 0.92:
            return g.mp((g.kwd('k'), self.expr(d - 1, sc)), (g.c('m'), self.expr(d - 1, sc)))
        return g.attr(g.mp((g.kwd('k'), self.expr(d - 1, sc))), 'k')


def fixed_probes():
    """the probes the language reference and the property single out (as ASTs)"""
    c, v, X = g.c, g.var, g.var('')
    arrow = lambda a, b: g.bn('->', a, b)
    one_two = g.lst(c(1), c(2))
    hostile = []
    for n in HOSTILE:
        hostile += [
            arrow(g.call('let', **{n: c(1)}), v(n)),
            arrow(g.call('let', c(4), **{n: c(1)}), g.lst(v('1'), v(n))),
            arrow(g.mcall(g.lst(c(7), c(8)), 'unpack', g.kwd(n), g.kwd('y')), g.lst(v(n), v('y'))),
            arrow(g.call('def', g.kwd('f'), v(n)), g.lst(g.call('f', **{n: c(3)}), v(n))),
            g.mcall(g.mcall(one_two, 'select', arrow(g.call('let', **{n: X}), g.bn('+', v(n), c(1)))), 'toList'),
            arrow(g.call('let', **{n: c(1)}), arrow(g.call('let', **{n: g.bn('+', v(n), c(1))}), v(n))),
        ]
    # a def-ined function is a function: methods of the same name (and library functions called as methods) are still there
    shadow = [
        arrow(g.call('def', g.kwd('len'), c(42)), g.lst(g.call('len'), g.mcall(g.lst(c(1), c(2), c(3)), 'len'))),
        arrow(g.call('def', g.kwd('select'), g.bn('+', X, c(1))), g.mcall(g.mcall(one_two, 'select', g.call('select', X)), 'toList')),
        arrow(g.call('def', g.kwd('sum'), g.bn('+', v('1'), v('2'))), g.lst(g.call('sum', c(3), c(4)), g.mcall(one_two, 'sum'))),
        arrow(g.call('def', g.kwd('len'), c(0)), g.mcall(g.mcall(g.lst(g.lst(c(1)), g.lst(c(1), c(2)), g.lst()), 'select', g.mcall(X, 'len')), 'toList')),
        arrow(g.call('def', g.kwd('f'), g.bn('+', X, c(1))), g.mcall(c(5), 'f')),
        arrow(g.call('def', g.kwd('len'), c(42)), g.call('len', one_two)),
        arrow(g.call('def', g.kwd('first'), c(7)), arrow(g.call('let', x=one_two), g.lst(g.call('first'), g.mcall(v('x'), 'first'), g.mcall(v('x'), 'last')))),
    ]
    return hostile + shadow + [
        arrow(g.call('let', x=c(1)), arrow(g.call('def', g.kwd('f'), v('x')), arrow(g.call('let', x=c(5)), g.call('f')))),
        g.mcall(one_two, 'aggregate', g.lst(v('1'), v('2'), g.mcall(g.mcall(g.lst(c(7)), 'select', v('2')), 'toList'))),
        arrow(g.call('let', x=c(1)), g.lst(arrow(g.call('let', x=c(2)), v('x')), v('x'))),
        g.mcall(g.mcall(one_two, 'select', arrow(g.call('let', y=X), g.mcall(g.mcall(g.lst(c(3)), 'select', g.bn('+', X, v('y'))), 'toList'))), 'toList'),
        v('unknown'),
        g.mcall(g.mcall(g.lst(one_two, g.lst(c(3))), 'select', g.mcall(g.mcall(X, 'select', g.bn('*', X, c(2))), 'toList')), 'toList'),
        arrow(g.call('with', c(1), c(2)), g.lst(v('1'), v('2'), X)),
        # a lambda passed by its (multi-word) keyword is a lambda all the same
        arrow(g.call('let', k=c(10)), g.mcall(one_two, 'toDict', X, valueSelector=g.bn('*', X, v('k')))),
        g.mcall(g.mcall(g.lst(c(3)), 'select', g.mcall(one_two, 'toDict', X, valueSelector=g.bn('*', X, c(10)))), 'toList'),
        g.mcall(g.lst(c(1), c(2), c(3)), 'groupBy', keySelector=g.bn('mod', X, c(2)), valueSelector=g.bn('+', X, c(1))),
        g.mcall(g.mcall(g.lst(c(1), c(2), c(3)), 'distinct', keySelector=g.bn('mod', X, c(2))), 'toList'),
        arrow(g.call('def', g.kwd('g'), X), g.mcall(g.mcall(one_two, 'select', g.call('g')), 'toList')),
        arrow(g.call('def', g.kwd('f'), g.lst(v('1'), v('2'))), arrow(g.call('with', c(7), c(8)), g.call('f', c(1)))),
        # arguments passed by name to a def-ined function live in that call only
        arrow(g.call('def', g.kwd('f'), g.bn('*', v('x'), c(2))), g.lst(g.call('f', x=c(5)), v('x'))),
        arrow(g.call('let', x=c(0)), arrow(g.call('def', g.kwd('f'), g.bn('+', v('x'), c(1))), g.lst(g.call('f', x=c(5)), v('x'), g.call('f', x=c(7)), g.call('f')))),
        arrow(g.call('def', g.kwd('f'), g.lst(v('x'), v('y'))), g.lst(g.call('f', x=c(1)), g.call('f', y=c(2)), g.call('f', c(3), y=c(4)))),
        # member access on a collection is member access on every element: a key one element lacks is an error there, too
        g.attr(g.lst(g.mp((g.kwd('a'), c(1)), (g.kwd('b'), c(2))), g.mp((g.kwd('b'), c(4)))), 'a'),
        g.attr(g.lst(g.mp((g.kwd('a'), c(1)), (g.kwd('b'), c(2))), g.mp((g.kwd('b'), c(4)))), 'b'),
        arrow(g.call('let', x=g.lst(g.mp((g.kwd('a'), c(1))), g.mp((g.kwd('b'), c(2))))), g.attr(v('x'), 'a')),
        g.attr(g.mcall(g.mcall(g.lst(g.mp((g.kwd('a'), c(1))), g.mp((g.kwd('b'), c(2)))), 'where', c(True)), 'toList'), 'a'),
        g.mcall(g.mcall(g.lst(g.mp((g.kwd('a'), c(1))), g.mp((g.kwd('b'), c(2)))), 'select', g.attr(X, 'a')), 'toList'),
        # ?. only steps aside for null: an empty or false-like receiver is a receiver
        g.lst(g.safemcall(g.lst(), 'select', g.bn('+', X, c(1))), g.safemcall(g.lst(), 'len'), g.safemcall(c(None), 'len'), g.safemcall(c(0), 'len'),
              g.safemcall(c(''), 'len'), g.safemcall(c(False), 'len')),
        g.lst(g.safeattr(g.mp(), 'a'), g.safeattr(g.lst(), 'a'), g.safeattr(c(None), 'a'), g.safeattr(g.mp((g.kwd('a'), c(0))), 'a')),
        arrow(g.call('let', xs=g.lst()), g.lst(g.safemcall(v('xs'), 'len'), g.safemcall(g.mcall(v('xs'), 'toList'), 'sum', c(5)))),
    ]


def run(rep, tier, seed, keep=False):
    quick = tier == 'quick'
    wd = tlc.workdir('c04')
    try:
        rng = random.Random(seed * 911 + 4)
        real = g.Real()
        events = []
        desc = {}
        gen = Gen(rng, 4)
        n = 8000 if quick else 150000
        fixed = [(a, dd) for a in fixed_probes() for dd in DOCS]
        for i in range(n):
            d = rng.choice([2, 3, 3, 4] if quick else [2, 3, 4, 4, 5, 6])
            gen.needs_dict = False
            if i < len(fixed):
                ast, data = fixed[i]
            else:
                ast = gen.expr(d, {})
                data = rng.choice(DOCS[:1] + DOCS[3:4] if gen.needs_dict else DOCS)
            text = g.render(ast)
            from yaql.language import utils as yutils
            res, _ = real.run(text, data, raw_context={'doc': yutils.convert_input_data(data)})
            j = len(events)
            events.append(g.event(j, ast, data, res))
            desc[j] = (text, data, res)
        rej, skipped, skipped_ids = g.validate(rep, wd, events, 'Trace_Eval/C04')
        for eid, clause in rej:
            text, data, res = desc[eid]
            kinds = sorted(set(k for k in ('let', 'def', 'with', 'unpack', 'as', 'select', 'where', 'aggregate') if k + '(' in text or '.' + k in text))
            rep.violation('C04/%s/%s' % (clause, '+'.join(kinds) or 'plain'), '%s on %r: real %r; clause %s' % (text, data, res, clause), {'text': text, 'data': data})
        rep.traces += len(events)
        rep.evaluations += len(events)
        nontriv = sum(1 for j in desc if ('->' in desc[j][0] or '.select' in desc[j][0]) and j not in skipped_ids)
        rep.nontrivial = nontriv
        rep.extra['skipped_by_model'] = skipped
        rep.extra['real_value_results'] = sum(1 for j in desc if desc[j][2][0] != 'e')
        for j in (1, 7, 20):
            rep.sample({'text': desc[j][0], 'data': desc[j][1], 'real': desc[j][2]})
        rep.rule = ('%d random expressions of the fragment (depth 2..%d) over %d JSON-like documents. Non-trivial = expressions using a context '
                    'construct or a lambda that the model judges.' % (n, 4 if quick else 6, len(DOCS)))
        rep.assumptions = ['functions outside the fragment are C13/C19\'s', 'integers stay small (32-bit TLC)']
    finally:
        if not keep:
            tlc.cleanup(wd)


def replay(path):
    doc = json.load(open(path))
    print(doc['desc'])
    return 1
