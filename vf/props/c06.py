"""C06 - resolution does not depend on registration or iteration order.

Same specification and harness as C05 (vf/props/c05.py); here every (family, call) is evaluated under
every permutation of each layer's enumeration order (a Context subclass with an ordered get_functions),
all outcomes must be equal and equal to the documented rule; TLC additionally shows (negative job) that the
pinned single-pass selection is order dependent and (invariant) that collect-then-pick is not."""
from vf.props import c05


def run(rep, tier, seed, keep=False):
    c05.run(rep, tier, seed, keep=keep, c06=True)


def replay(path):
    return c05.replay(path)
