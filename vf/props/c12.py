"""C12 - all ways of passing the same arguments are equivalent.

G  Spellings.tla: for every signature projected from the registered function definitions TLC enumerates every argument
   tuple (subset of defaulted parameters given) x every spelling (positional prefix / keyword rest, empty slots or explicit
   defaults, function / method / call() form) with its validity; each valid spelling is rendered and evaluated on the real
   engine and must give the reference spelling's result or error class.  Keywords using the Python name instead of the
   convention-translated alias, and method-only / function-only forms, must be rejected.
M  SomeSpelling: every argument tuple has a valid spelling in every form the function supports.
"""
import datetime
import json
import random
import re
import signal

from vf import tlc, tlaval
from vf.props import c08, c09

SKIP = {'random', 'now', 'localtz', 'call', 'def', 'let', 'with', 'lambda', 'yaql'}
CORPUS = [[3, 1, 2], 'a b', 2, 1.5, True, None, {'a': 1, 'b': 2}, datetime.datetime(2020, 1, 2, 3, 4, 5), datetime.timedelta(1, 2), [[1, 2], [3]], 'b', 0, [1]]


def lit(v):
    if v is None:
        return 'null'
    if v is True:
        return 'true'
    if v is False:
        return 'false'
    if isinstance(v, (int, float)) and not isinstance(v, bool):
        return repr(v) if v >= 0 else '(%r)' % v
    if isinstance(v, str):
        return "'" + v.replace('\\', '\\\\').replace("'", "\\'") + "'"
    return None


def project(fd):
    from yaql.language import specs, yaqltypes
    ps = c08.visible_params(fd)
    kwonly = [p for k, p in fd.parameters.items() if p.position is None and k != '**' and not isinstance(p.value_type, yaqltypes.HiddenParameterType)]
    return ps, kwonly


def run(rep, tier, seed, keep=False):
    import yaql
    from yaql.language import specs, yaqltypes
    from yaql.language import exceptions as exc
    quick = tier == 'quick'
    wd = tlc.workdir('c12')
    try:
        rng = random.Random(seed * 1201 + 12)
        # aliases given explicitly by decorators, read from the decorated payloads before any context is created
        # (everything else must carry the context convention's translation of the Python name)
        import importlib
        import pkgutil
        import yaql.standard_library as stdlib
        global EXPLICIT
        EXPLICIT = {}
        for mi in pkgutil.iter_modules(stdlib.__path__):
            m = importlib.import_module('yaql.standard_library.' + mi.name)
            for obj in vars(m).values():
                fd0 = getattr(obj, '__yaql_function__', None)
                if fd0 is not None and callable(obj):
                    for k, p0 in fd0.parameters.items():
                        if p0.alias is not None:
                            EXPLICIT[(id(obj), p0.name)] = p0.alias
        engine = yaql.YaqlFactory().create()
        from yaql.language import conventions
        # two contexts with different naming conventions in one process: the second must get its own aliases
        for label, ctx in (('camelCase', yaql.create_context()), ('python_convention', yaql.create_context(convention=conventions.PythonConvention()))):
            sweep(rep, wd, engine, ctx, label, quick, rng)
        rep.exhaustive = True
        rep.rule = ('every named function definition of the default context (camelCase convention, then a second context with the Python '
                    'convention) with <= 5 visible positional parameters x every subset of given defaulted parameters x every split point x '
                    '{empty slots, explicit defaults} x {function, method, call()} form; argument values chosen from a typed corpus through the '
                    'real value_type.check. Non-trivial = spellings whose reference evaluates successfully.')
        rep.assumptions = ['nondeterministic functions (random, now) and context constructs are excluded', 'results compared after finalisation with deep equality']
    finally:
        if not keep:
            tlc.cleanup(wd)


EXPLICIT = {}


def expected_alias(fd, p, convention):
    """the keyword name the property promises: explicit decorator alias, else the convention's translation of the Python name"""
    k = (id(fd.payload), p.name)
    if k in EXPLICIT:
        return EXPLICIT[k]
    # computed here, not by the library: trailing underscores (which only keep a Python name off a keyword / builtin) are not
    # part of the yaql name; camelCase turns every inner "_x" into "X", the Python convention keeps the rest as it is
    n = p.name.rstrip('_')
    if type(convention).__name__ != 'CamelCaseConvention':
        return n
    out = ''
    i = 0
    while i < len(n):
        if n[i] == '_' and i > 0 and i + 1 < len(n) and (n[i + 1].isalnum() or n[i + 1] == '_'):
            out += n[i + 1].upper()
            i += 2
        else:
            out += n[i]
            i += 1
    return out


def family(base, rot):
    """a child of `base` with a synthetic overload family vfOver (same name, overloads told apart by the type of the first
    argument, two defaulted parameters whose values show in the result) registered in rotation `rot`"""
    from yaql.language import specs, yaqltypes

    def mk(tag, tp):
        @specs.parameter('x', tp)
        @specs.extension_method
        def over(x, k=7, j='d'):
            return [tag, x if not hasattr(x, '__iter__') or isinstance(x, str) else list(x), k, j]
        return over
    fns = [mk('int', yaqltypes.Integer()), mk('str', yaqltypes.String()), mk('seq', yaqltypes.Sequence()), mk('dict', yaqltypes.PythonType(dict, False))]
    c = base.create_child_context()
    for f in fns[rot:] + fns[:rot]:
        c.register_function(f, name='vfOver')

    # parameter names whose translated form is a reserved word of the host language (as the library's random(from_, to_)):
    # in yaql they are names like any other
    def kw(from_, to_=2, class_=3, global_='g'):
        return ['kw', from_, to_, class_, global_]
    c.register_function(kw, name='vfKw')
    return c


def sweep(rep, wd, engine, ctx, label, quick, rng):
    import yaql
    from yaql.language import specs, yaqltypes
    ctx = family(ctx, 0)
    if True:
        regex_obj = engine("regex('a')").evaluate(context=ctx)
        corpus = CORPUS + [regex_obj]
        fds = [(n, fd) for n, fd in c08.all_fds(ctx) if not n.startswith('#') and not n.startswith('*') and n not in SKIP]
        sigs = []
        infos = []
        function_names = set(n for n, fd in fds if fd.is_function)
        method_names = set(n for n, fd in fds if fd.is_method)
        for name, fd in fds:
            ps, kwonly = project(fd)
            if kwonly or len(ps) > 5:
                continue
            dflt = [p.default is not specs.NO_DEFAULT for p in ps]
            lazy = [isinstance(p.value_type, yaqltypes.LazyParameterType) for p in ps]
            # python allows a non-default after a default only for hidden parameters; keep signatures whose defaults form a suffix
            sigs.append({'n': len(ps), 'dflt': tuple(dflt), 'lazy': tuple(lazy), 'nokw': bool(fd.no_kwargs), 'fn': bool(fd.is_function),
                         'me': bool(fd.is_method)})
            infos.append((name, fd, ps))
        mod = '---- MODULE MC_Spellings ----\nEXTENDS Spellings\nMCSigs == %s\n====\n' % tlaval.to_tla(tuple(sigs))
        dump = wd + '/g' + label
        r = tlc.ok(tlc.run('MC_Spellings', 'SPECIFICATION Spec\nCONSTANT Sigs <- MCSigs\nINVARIANT SomeSpelling\n', wd, modules={'MC_Spellings': mod},
                           workers=8, dump=dump, timeout=3000))
        rep.tlc('Spellings/G+M %d signatures (%s)' % (len(sigs), label), r)
        rep.extra['signatures:' + label] = len(sigs)
        # argument values per signature
        argvals = {}
        falsyvals = {}
        nullvals = {}

        def choose_args(si):
            name, fd, ps = infos[si]
            best = None
            for attempt in range(4):
                vals = []
                for p in ps:
                    if isinstance(p.value_type, yaqltypes.LazyParameterType):
                        # (a lambda whose result shows whether it ran per element or once, up front, against the caller's `$`)
                        vals.append(('text', ['[$, 7]', '$ > 1', '$', 'true'][attempt % 4] if isinstance(p.value_type, yaqltypes.Lambda) else 'foo'))
                        continue
                    cands = corpus[attempt:] + corpus[:attempt]
                    for c in cands:
                        try:
                            if p.value_type.check(c, ctx, engine):
                                vals.append(('val', c))
                                break
                        except Exception:
                            continue
                    else:
                        vals.append(('val', None))
                best = best or vals
                text, binds = render(name, fd, ps, vals, set(range(1, len(ps) + 1)), len(ps), 'func' if fd.is_function else 'method', False)
                if text and evaluate(text, binds)[0] == 'ok':
                    return vals
            return best

        FALSY = [0, False, '', [], {}, None, 0.0]

        def falsy_args(si, vals):
            """the chosen tuple with every defaulted parameter replaced by a false-like value of an accepted type that
            differs from its default (0, false, '', [], {}, null): passing such a value is not the same as omitting it"""
            name, fd, ps = infos[si]
            out = list(vals)
            changed = False
            for j, p in enumerate(ps):
                if p.default is specs.NO_DEFAULT or vals[j][0] != 'val':
                    continue
                for c in FALSY:
                    try:
                        if p.value_type.check(c, ctx, engine) and not (c == p.default and type(c) is type(p.default)):
                            out[j] = ('val', c)
                            changed = True
                            break
                    except Exception:
                        continue
            return out if changed else None

        def null_args(si, vals):
            """the chosen tuple with null in every parameter that accepts it: a null that is passed is an argument like any other"""
            name, fd, ps = infos[si]
            out = list(vals)
            changed = False
            for j, p in enumerate(ps):
                if vals[j][0] != 'val' or vals[j][1] is None:
                    continue
                try:
                    if p.value_type.check(None, ctx, engine):
                        out[j] = ('val', None)
                        changed = True
                except Exception:
                    continue
            return out if changed else None

        def render(name, fd, ps, vals, given, m, form, explicit):
            binds = {}
            pos = []
            for i in range(1, m + 1):
                kind, v = vals[i - 1]
                if i in given:
                    if kind == 'text':
                        pos.append(v)
                    else:
                        binds['v%d' % i] = v
                        pos.append('$v%d' % i)
                elif explicit:
                    l = lit(ps[i - 1].default)
                    if l is None:
                        return None, None
                    pos.append(l)
                else:
                    pos.append('')
            kws = []
            for i in sorted(given):
                if i > m:
                    kind, v = vals[i - 1]
                    alias = expected_alias(fd, ps[i - 1], ctx.convention)
                    if kind == 'text':
                        kws.append((alias, v))
                    else:
                        binds['v%d' % i] = v
                        kws.append((alias, '$v%d' % i))
            if form == 'call':
                if '' in pos or any(vals[i - 1][0] == 'text' for i in given):
                    return None, None
                return "call(%s, [%s], {%s})" % (lit(name), ', '.join(pos), ', '.join('%s => %s' % (lit(k), v) for k, v in kws)), binds
            allargs = pos + ['%s => %s' % (k, v) for k, v in kws]
            if form == 'method':
                if not pos or pos[0] == '':
                    return None, None
                return '%s.%s(%s)' % (pos[0], name, ', '.join(allargs[1:])), binds
            return '%s(%s)' % (name, ', '.join(allargs)), binds

        def evaluate(text, binds, base=None):
            c = (base or ctx).create_child_context()
            for k, v in binds.items():
                c[k] = v
            signal.signal(signal.SIGALRM, c08._alarm)
            signal.setitimer(signal.ITIMER_REAL, 3.0)
            try:
                return ('ok', engine(text).evaluate(context=c))
            except c08.Alarm:
                return ('exc', 'timeout')
            except Exception as e:  # noqa
                # the function and the method form of one error are the same error class for this property
                return ('exc', type(e).__name__.replace('Method', 'Function'))
            finally:
                signal.setitimer(signal.ITIMER_REAL, 0)
        ref = {}
        n = 0
        nvalid = 0
        from collections import Counter
        cnt_names = Counter(nm for nm, _fd in fds)
        multi = set(nm for nm, k in cnt_names.items() if k >= 2)
        fresh = [family(yaql.create_context(convention=ctx.convention), i) for i in range(4)]
        states = list(tlaval.parse_dump(dump + '.dump'))
        for st in states:
            si = st['sig'] - 1
            name, fd, ps = infos[si]
            given = frozenset(st['given'])
            sp = st['sp']
            if not st['valid']:
                continue
            if si not in argvals:
                argvals[si] = choose_args(si)
                falsyvals[si] = falsy_args(si, argvals[si])
                nullvals[si] = null_args(si, argvals[si])
            for variant, vals in (('chosen', argvals[si]), ('falsy', falsyvals[si]), ('nulls', nullvals[si])):
                if vals is None:
                    continue
                if variant == 'falsy' and not any(ps[i - 1].default is not specs.NO_DEFAULT for i in given):
                    continue
                text, binds = render(name, fd, ps, vals, given, int(sp['m']), str(sp['form']), bool(sp['explicit']))
                if text is None:
                    continue
                rk = (si, given, variant)
                if rk not in ref:
                    mm = max(given) if given else 0
                    form0 = 'func' if fd.is_function else 'method'
                    t0, b0 = render(name, fd, ps, vals, given, mm, form0, False)
                    ref[rk] = (t0, evaluate(t0, b0)) if t0 else (None, None)
                t0, r0 = ref[rk]
                if t0 is None or r0 == ('exc', 'timeout'):
                    continue
                got = evaluate(text, binds)
                if name in multi and got[0] == r0[0]:
                    # several overloads share this name: repeat in fresh contexts (each enumerates its overload sets in its own order)
                    for fc in fresh:
                        g2 = evaluate(text, binds, fc)
                        if not (g2[0] == r0[0] and (g2[1] == r0[1] if g2[0] == 'exc' else c09.deep_eq(g2[1], r0[1]))):
                            got = g2
                            break
                n += 1
                rep.evaluations += 1
                if r0[0] == 'ok':
                    nvalid += 1
                same = got[0] == r0[0] and (got[1] == r0[1] if got[0] == 'exc' else c09.deep_eq(got[1], r0[1]))
                if not same:
                    rep.violation('C12/spelling-differs/%s/%s' % (label, name), '%s with %s gives %r but the reference spelling %s gives %r' % (
                        text, {k: v for k, v in binds.items()}, got, t0, r0), {'text': text, 'reference': t0, 'binds': {k: repr(v) for k, v in binds.items()}})
                if n % 701 == 1:
                    rep.sample({'function': name, 'reference': t0, 'spelling': text, 'result': repr(got)[:80]})
        rep.extra['spellings_evaluated:' + label] = n
        rep.traces += n
        rep.nontrivial += nvalid
        # ---- spellings the binding rules make invalid must be rejected
        nrej = 0
        for si, (name, fd, ps) in enumerate(infos):
            vals = argvals.get(si) or choose_args(si)
            given = set(range(1, len(ps) + 1))
            # (a) keyword using the Python name although the convention gave the parameter another alias
            for i, p in enumerate(ps, 1):
                alias = expected_alias(fd, p, ctx.convention)
                if alias != p.name and not fd.no_kwargs and i > 1 and not any((q.alias or q.name) == p.name for q in ps):
                    pos = []
                    binds = {}
                    for j in range(1, i):
                        k, v = vals[j - 1]
                        if k == 'text':
                            pos.append(v)
                        else:
                            binds['v%d' % j] = v
                            pos.append('$v%d' % j)
                    k, v = vals[i - 1]
                    if k != 'text':
                        binds['v%d' % i] = v
                        v = '$v%d' % i
                    if fd.is_function:
                        text = '%s(%s)' % (name, ', '.join(pos + ['%s => %s' % (p.name, v)]))
                    else:
                        text = '%s.%s(%s)' % (pos[0], name, ', '.join(pos[1:] + ['%s => %s' % (p.name, v)]))
                    # only meaningful when the same call with the alias is accepted
                    good = evaluate(text.replace('%s => ' % p.name, '%s => ' % alias), binds)
                    got = evaluate(text, binds)
                    nrej += 1
                    rep.evaluations += 1
                    if good[0] == 'ok' and got[0] == 'ok' and len([o for nn, o in fds if nn == name]) == 1:
                        rep.violation('C12/python-name-accepted/%s' % name, '%s is accepted although the parameter is called %r by convention' % (text, alias), {'text': text})
            # (b) method-only functions are not callable as functions, function-only ones not as methods
            t0, b0 = render(name, fd, ps, vals, given, len(ps), 'func', False)
            t1, b1 = render(name, fd, ps, vals, given, len(ps), 'method', False)
            if fd.is_method and not fd.is_function and name not in function_names and t0:
                got = evaluate(t0, b0)
                nrej += 1
                if got[0] == 'ok' or got[1] not in ('NoFunctionRegisteredException', 'NoMatchingFunctionException'):
                    rep.violation('C12/method-callable-as-function/%s' % name, '%s (a method) called as function gives %r' % (t0, got), {'text': t0})
            if fd.is_function and not fd.is_method and name not in method_names and t1:
                got = evaluate(t1, b1)
                nrej += 1
                if got[0] == 'ok' or got[1] not in ('NoFunctionRegisteredException', 'NoMatchingFunctionException'):
                    rep.violation('C12/function-callable-as-method/%s' % name, '%s (a function) called as method gives %r' % (t1, got), {'text': t1})
        rep.extra['rejection_cases:' + label] = nrej


def replay(path):
    doc = json.load(open(path))
    print(doc['desc'])
    return 1
