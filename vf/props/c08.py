"""C08 - iterator limit and memory quota bound every evaluation.

M  Limits.tla: the limiter never lets more than N + 1 items leave a source nor more than N reach a consumer, for every
   N in 0..4 and an arbitrary (endless) consumer (PullBound, DeliveredBound, RaisedIsFinal).
G  MC_Convert (Mode = limits): result shapes (flat / nested lists, dicts, sets, iterators, views) with widths 0..5 against
   N in {0..4}: finalisation must return the plain value or raise CollectionTooLargeException exactly as the model says.
V  parameter sweep: every registered function x every parameter position whose declared type accepts an iterator is fed an
   endless counted source (N in {0, 1, 10}); growth chains under memory quotas with payload wrappers recording argument
   sizes; repetition pre-check.  Events judged by Trace_Limits.tla.
"""
import itertools
import json
import random
import signal
import sys

from vf import tlc, tlaval, trace
from vf.props import c10


class SourceOverrun(Exception):
    pass


class Alarm(BaseException):
    pass


def _alarm(*a):
    raise Alarm()


class Counted(object):
    """endless instrumented source 0, 1, 2, ...; raises SourceOverrun when pulled past `cap`"""

    def __init__(self, cap):
        self.pulls = 0
        self.cap = cap

    def __iter__(self):
        return self

    def __next__(self):
        if self.pulls >= self.cap:
            raise SourceOverrun()
        self.pulls += 1
        return self.pulls - 1


class CountedIterable(object):
    """the same endless source as an object that can be iterated again and again (no __next__ of its own): every iteration
    continues the one count"""

    def __init__(self, cap):
        self.pulls = 0
        self.cap = cap

    def __iter__(self):
        while True:
            if self.pulls >= self.cap:
                raise SourceOverrun()
            self.pulls += 1
            yield self.pulls - 1


def host_functions(ctx):
    """functions a host adds with the documented aggregate types around a collection parameter (extending_yaql: Chain, AnyOf,
    NotOfType): their collection argument is limited like any library function's"""
    from yaql.language import specs, yaqltypes

    @specs.parameter('collection', yaqltypes.Chain(yaqltypes.Iterable(), yaqltypes.NotOfType(set)))
    def host_chain_first(collection):
        return sum(1 for _ in collection)

    @specs.parameter('collection', yaqltypes.Chain(yaqltypes.NotOfType(set), yaqltypes.Iterable()))
    def host_chain_last(collection):
        return sum(1 for _ in collection)

    @specs.parameter('collection', yaqltypes.AnyOf(yaqltypes.Iterable(), yaqltypes.String()))
    def host_any_of(collection):
        return collection if isinstance(collection, str) else sum(1 for _ in collection)
    for f in (host_chain_first, host_chain_last, host_any_of):
        ctx.register_function(f)
    return ctx


def width(v):
    if isinstance(v, dict):
        return max([len(v)] + [max(width(k), width(x)) for k, x in v.items()])
    if isinstance(v, (list, tuple, set, frozenset)):
        return max([len(v)] + [width(x) for x in v])
    return 0


def build_wide(t):
    """like c10.build, but repeated scalar children become distinct values so that sets/dicts keep their width"""
    k = str(t['k'])
    if k == 'scalar':
        return c10.SCAL[str(t['v'])]
    ch = list(t['ch'])
    def child(i, c):
        if isinstance(c, tuple):
            return ('k%d' % i if str(c[0]['k']) == 'scalar' else build_wide(c[0]), i if str(c[1]['k']) == 'scalar' else build_wide(c[1]))
        return i if str(c['k']) == 'scalar' else build_wide(c)
    from yaql.language import utils
    items = [child(i, c) for i, c in enumerate(ch)]
    if k in ('dict', 'frozendict', 'keysview', 'valuesview', 'itemsview'):
        if k == 'dict':
            return dict(items)
        fd = utils.FrozenDict(items)
        return {'frozendict': fd, 'keysview': fd.keys(), 'valuesview': fd.values(), 'itemsview': fd.items()}[k]
    return {'list': list, 'tuple': tuple, 'set': set, 'frozenset': frozenset, 'generator': lambda x: (y for y in x),
            'mapobj': lambda x: map(lambda y: y, x), 'ordering': lambda x: iter(x)}[k](items)


def all_fds(ctx):
    out = []
    seen = set()
    c = ctx
    while c is not None:
        fns = getattr(c, '_functions', None)
        if fns:
            for name, fds in fns.items():
                for fd in fds:
                    if id(fd) not in seen:
                        seen.add(id(fd))
                        out.append((name, fd))
        c = c.parent
    return sorted(out, key=lambda x: (x[0], sorted(x[1].parameters.keys(), key=str)))


CANDS = [2, 'a', [1, 2], {'a': 1}, True, None, 1.5, 0]


def visible_params(fd):
    from yaql.language import yaqltypes
    ps = [p for k, p in fd.parameters.items() if p.position is not None and k != '*' and
          not isinstance(p.value_type, yaqltypes.HiddenParameterType)]
    return sorted(ps, key=lambda p: p.position)


def sweep_cases(ctx, engine, probes=None):
    """(name, fd, target index, [arg spec]) for every parameter that accepts a probe iterator (or one of the values made by
    the `probes` factories)"""
    from yaql.language import yaqltypes
    import datetime
    cands = CANDS + [datetime.datetime(2020, 1, 1), datetime.timedelta(1)]
    cases = []
    unswept = []
    for name, fd in all_fds(ctx):
        ps = visible_params(fd)
        for ti, tp in enumerate(ps):
            if isinstance(tp.value_type, yaqltypes.LazyParameterType):
                continue
            ok = False
            for mk in (probes or [lambda: iter(())]):
                try:
                    ok = ok or tp.value_type.check(mk(), ctx, engine)
                except Exception:
                    pass
            if not ok:
                continue
            # declared type says "any object": a sequence is accepted but not as a sequence parameter -> still swept, marked generic
            generic = False
            try:
                generic = tp.value_type.check(object(), ctx, engine)
            except Exception:
                pass
            spec = []
            good = True
            for i, p in enumerate(ps):
                if i == ti:
                    spec.append(('src',))
                elif isinstance(p.value_type, yaqltypes.LazyParameterType):
                    spec.append(('text', '$' if not isinstance(p.value_type, yaqltypes.Lambda) or True else '$'))
                else:
                    for c in cands:
                        try:
                            if p.value_type.check(c, ctx, engine):
                                spec.append(('val', c))
                                break
                        except Exception:
                            continue
                    else:
                        if p.default is not None and type(p.default).__name__ != 'object' and 'NO_DEFAULT' not in repr(p.default):
                            spec.append(('omit',))
                        else:
                            good = False
                            break
            if good:
                cases.append((name, fd, ti, tp.name, spec, generic))
            else:
                unswept.append('%s/%s' % (name, tp.name))
    return cases, unswept


def render(name, fd, spec):
    """-> expression text and variable bindings (source bound as $src)"""
    args = []
    binds = {}
    for i, s in enumerate(spec):
        if s[0] == 'src':
            args.append('$src')
        elif s[0] == 'text':
            args.append(s[1])
        elif s[0] == 'val':
            binds['a%d' % i] = s[1]
            args.append('$a%d' % i)
        else:
            args.append(None)
    while args and args[-1] is None:
        args.pop()
    args = ['' if a is None else a for a in args]
    n = name
    if n.startswith('#operator_') and len(args) == 2:
        return '%s %s %s' % (args[0], n[len('#operator_'):], args[1]), binds
    if n.startswith('#unary_operator_') and len(args) == 1:
        return '%s %s' % (n[len('#unary_operator_'):], args[0]), binds
    if n == '#indexer' and len(args) >= 2:
        return '%s[%s]' % (args[0], ', '.join(args[1:])), binds
    if n.startswith('#') or n.startswith('*'):
        return None, binds
    if fd.is_method and not fd.is_function:
        if not args:
            return None, binds
        return '%s.%s(%s)' % (args[0], n, ', '.join(args[1:])), binds
    return '%s(%s)' % (n, ', '.join(args)), binds


_PARSE_FORM = [0]
_TIMEOUTS = [0]        # (once several statements have run into the watchdog, the rest get a short one)


def evaluate(engine, ctx, text, binds, src, timeout=20.0):
    from yaql.language import exceptions as exc
    c = ctx.create_child_context()
    for k, v in binds.items():
        c[k] = v
    c['src'] = src
    signal.signal(signal.SIGALRM, _alarm)
    signal.setitimer(signal.ITIMER_REAL, timeout if _TIMEOUTS[0] < 8 else min(timeout, 3.0))
    try:
        try:
            # the three ways of parsing a statement on a configured engine; the per-statement options repeat a setting the engine
            # already has, so they change nothing - the limits the engine was created with stay in force
            _PARSE_FORM[0] += 1
            form = _PARSE_FORM[0] % 3
            same = {'yaql.convertTuplesToLists': engine.options.get('yaql.convertTuplesToLists', True)}
            if form == 1 and hasattr(engine, 'copy'):
                st = engine(text, same)
            elif form == 2 and hasattr(engine, 'copy'):
                st = engine.copy(same)(text)
            else:
                st = engine(text)
        except Exception as e:  # noqa
            return ('parse:' + type(e).__name__, None)
        # (a code change that loses a limit must show up as a violation, not take the machine down: the address space of this
        # process is capped at its present size + 4 GB while the statement runs)
        import resource
        soft0, hard0 = resource.getrlimit(resource.RLIMIT_AS)
        try:
            with open('/proc/self/statm') as f_:
                cur = int(f_.read().split()[0]) * resource.getpagesize()
            cap = cur + (4 << 30)
            if hard0 == resource.RLIM_INFINITY or cap <= hard0:
                resource.setrlimit(resource.RLIMIT_AS, (cap, hard0))
        except (OSError, ValueError):
            pass
        try:
            v = st.evaluate(context=c)
        finally:
            try:
                resource.setrlimit(resource.RLIMIT_AS, (soft0, hard0))
            except (OSError, ValueError):
                pass
        return ('value', v)
    except Alarm:
        _TIMEOUTS[0] += 1
        return ('timeout', None)
    except SourceOverrun:
        return ('overrun', None)
    except exc.CollectionTooLargeException:
        return ('TooLarge', None)
    except exc.MemoryQuotaExceededException:
        return ('MemoryQuota', None)
    except (exc.NoMatchingFunctionException, exc.NoMatchingMethodException, exc.NoFunctionRegisteredException, exc.NoMethodRegisteredException):
        return ('NoMatch', None)
    except BaseException as e:  # noqa
        if isinstance(e, exc.WrappedException) and isinstance(e.wrapped, SourceOverrun):
            return ('overrun', None)
        cause = e
        while cause is not None:
            if isinstance(cause, SourceOverrun):
                return ('overrun', None)
            cause = cause.__cause__ or cause.__context__
        return ('error:' + type(e).__name__, None)
    finally:
        signal.setitimer(signal.ITIMER_REAL, 0)


def run(rep, tier, seed, keep=False):
    import yaql
    quick = tier == 'quick'
    wd = tlc.workdir('c08')
    try:
        # ---------------- M: limiter
        for n in (0, 1, 2, 4):
            r = tlc.ok(tlc.run('Limits', 'SPECIFICATION Spec\nCONSTANTS\n N = %d\n MaxPulls = 12\nINVARIANT PullBound\nINVARIANT DeliveredBound\n'
                                         'INVARIANT RaisedIsFinal\n' % n, wd, workers=2))
            rep.tlc('Limits/M limiter N=%d' % n, r)
        # ---------------- G: result shapes around N
        cfg = 'SPECIFICATION Spec\nCONSTANTS\n Depth = 1\n Mode = "limits"\n Ns = %s\nINVARIANT PlainOut\n' % ('{0, 1, 2, 3, 4}' if quick else '{0, 1, 2, 3, 4, 5, 6}')
        dump = wd + '/shapes'
        r = tlc.ok(tlc.run('MC_Convert', cfg, wd, workers=8, dump=dump))
        rep.tlc('Convert/G result shapes x widths 0..5 x N 0..4', r)
        engs = {}
        ctx = yaql.create_context()
        ng = 0
        for st in tlaval.parse_dump(dump + '.dump'):
            t, s2l, t2l, n, out = st['tree'], bool(st['s2l']), bool(st['t2l']), int(st['n']), st['out']
            key = (n, s2l, t2l)
            if key not in engs:
                e = yaql.YaqlFactory().create(options={'yaql.limitIterators': n, 'yaql.convertSetsToLists': s2l, 'yaql.convertTuplesToLists': t2l,
                                                       'yaql.convertInputData': False})
                engs[key] = e('$')
            try:
                got = ('ok', engs[key].evaluate(data=build_wide(t), context=ctx.create_child_context()))
            except Exception as e:  # noqa
                got = ('raises', type(e).__name__)
            ng += 1
            rep.evaluations += 1
            case = {'tree': c10.short(t), 'N': n, 's2l': s2l, 't2l': t2l}
            if str(out['why']) == 'too-large':
                if got != ('raises', 'CollectionTooLargeException'):
                    rep.violation('C08/result-shape/not-refused', 'limitIterators=%d: finalising %s gave %r, the model demands CollectionTooLargeException' % (
                        n, c10.short(t), got), case)
            elif out['ok']:
                if not (got[0] == 'ok' and width(got[1]) <= n and not c10.has_notplain(c10.census(got[1]))):
                    rep.violation('C08/result-shape/within-limit-rejected', 'limitIterators=%d: finalising %s gave %r, the model says it fits' % (n, c10.short(t), got), case)
            if ng % 211 == 1:
                rep.sample({'tree': c10.short(t), 'N': n, 'model': str(out['why']) or 'fits'})
        rep.extra['result_shapes'] = ng
        rep.exhaustive = True
        # ---------------- V: parameter sweep
        events = []
        desc = {}

        def add(ev, d):
            ev['id'] = len(events)
            desc[ev['id']] = d
            events.append(ev)
        swept = set()
        allfn = set()
        for n in ((0, 1, 10) if quick else (0, 1, 2, 3, 10, 37)):
            engine = yaql.YaqlFactory().create(options={'yaql.limitIterators': n})
            engine_raw = yaql.YaqlFactory().create(options={'yaql.limitIterators': n, 'yaql.convertInputData': False})
            for ctxname, cx in (('default', host_functions(yaql.create_context(delegates=True))),):
                cases, unswept = sweep_cases(cx, engine)
                for name, fd in all_fds(cx):
                    allfn.add(name)
                for (name, fd, ti, pname, spec, generic) in cases:
                    text, binds = render(name, fd, spec)
                    if text is None:
                        continue
                    for eng_, mode in ((engine, 'conv'), (engine_raw, 'raw')):
                        src = Counted(n + 50)
                        o, v = evaluate(eng_, cx, text, binds, src)
                        swept.add((name, pname))
                        w = width(v) if o == 'value' else 0
                        add({'act': 'sweep', 'fn': name.encode('ascii', 'replace').decode(), 'param': pname, 'n': n, 'pulls': src.pulls,
                             'outcome': o if o.isascii() else 'error:x', 'width': w},
                            '%s with an endless source in parameter %r (limitIterators=%d, %s): %d pulls, outcome %s' % (text, pname, n, mode, src.pulls, o))
        rep.extra['functions_in_context'] = len(allfn)
        rep.extra['parameter_positions_swept'] = len(swept)
        rep.extra['unswept'] = sorted(set(unswept))[:40]
        # composite shapes: the source reached through other values
        extra = ['[$src].first().len()', '$src.select($).len()', 'len($src)', '$src.toList()', '[$src, 1]', 'dict(a => $src)', '{a => $src}',
                 '$src.select($ * 2).where($ > 10).take(1000)', '$src.orderBy($)', '$src.reverse()', '$src.distinct()',
                 '$src.toSet()', '$src.groupBy($ mod 2)', '$src.sum()', '$src.max()', '$src.last()', '$src.zip([1,2,3])', '$src.join([1,2], true, [$1, $2])',
                 '$src.accumulate($1 + $2)', '$src.aggregate($1 + $2)', 'list($src)', 'set($src)', '$src.len()', '$src.any()', '$src.count()' if False else '$src.all()',
                 '$src.memorize().len()', '$src.cycle()' if False else '$src.skip(5)', 'sequence()', 'sequence().select($ * 2)', 'repeat(1)', 'cycle([1,2])',
                 'range(100)', 'generate(0, true, $ + 1)', 'generateMany(0, [$ + 1, $ + 2])', 'sequence().toDict($, $)', '[1].cycle().splitWhere($ = 0)',
                 "'a'.join($src.select(str($)))", '$src.select(str($)).sum()', 'dict($src.select([$, $]))', '$src.select([$, $]).toDict($[0], $[1])', '$src.containsAll([1])' if False else '$src.indexOf(-1)',
                 '$src.skipWhile(true)', '$src.takeWhile(true)', '$src.selectMany([$, $])', '$src.flatten()', '$src.mergeWith($src)' if False else '$src.slice(3)',
                 '$src.sliceWhere(false)', '$src.splitAt(1000)' if False else '$src.enumerate()', 'let(x => $src) -> $x.len()', '$src.unpack()', '$src.unpack(a)']
        for n in (0, 1, 10, 100):
            engine = yaql.YaqlFactory().create(options={'yaql.limitIterators': n})
            cx = yaql.create_context()
            for text in extra:
                src = Counted(n + 50)
                o, v = evaluate(engine, cx, text, {}, src)
                w = width(v) if o == 'value' else 0
                add({'act': 'sweep', 'fn': 'expr', 'param': 'src', 'n': n, 'pulls': src.pulls, 'outcome': o, 'width': w},
                    '%s (limitIterators=%d): %d pulls, outcome %s' % (text, n, src.pulls, o))
        nsweep = len(events)
        # ---------------- V: memory quota - sizes of values handed to payloads, growth chains
        from yaql.language import specs as yspecs
        chains = ["$s + $s", "concat($s, $s)", "$s * 3", "3 * $s", "$s.replace('x', 'xyz')", "[$s, $s].join('')", "$l + $l", "$l * 3", "$l.append(1)", "$l.select($s + $s)",
                  "[1, 2].select($s + $s)", "{a => concat($s, $s)}", "[1].select($s.replace('x', 'xyz'))", "$l.accumulate($1 + $2)", "generate($s, true, $ + $).take(20)",
                  "$d.set(k, $s + $s)", "$d.mergeWith({b => $s + $s})", "$s.toUpper() + $s.toLower()", "'{0}{0}'" if False else "format('{0}{0}', $s)",
                  "$l.select($).toList() + $l.toList()", "[[$s + $s]]", "$s.split('x').join('xx')", "$l.zip($l).select($[0])", "$s.len()", "let(y => $s + $s) -> 1",
                  "dict($l.select([$, $]) + $l.select([-$ - 1, $])).len()", "dict($l.select([$, $]) + $l.select([-$ - 1, $])).containsKey(1)",
                  "dict(($l + $l.select(-$ - 1)).select([$, 1]))", "($l + $l.select(-$ - 1)).toDict($, 1).len()", "dict($l.zip($l)).set(a, 1).len()",
                  "[$s + $s].len()", "$s + $s + $s + $s", "($s + $s).len()", "$l.toSet().union(($l + [99]).toSet())", "dict(a => $s).set(b, $s + $s)", "$s.trim() + $s.trimLeft()"]
        for q in ((256, 1000, 4096, 65536) if quick else (200, 256, 1000, 2048, 4096, 20000, 65536)):
            engine = yaql.YaqlFactory().create(options={'yaql.memoryQuota': q})
            for sz in ((q // 4, q // 2 + 20, q - 60) if quick else (q // 4, q // 3, q // 2 + 20, q - 200, q - 60)):
                cx = yaql.create_context()
                sizes = []
                # wrap every payload once so that the sizes of the arguments it receives are recorded
                c = cx
                while c is not None:
                    for name, fds in list(getattr(c, '_functions', {}).items()):
                        for fd in list(fds):
                            orig = fd.payload

                            def mk(orig):
                                def w(*a, **k):
                                    for x in list(a) + list(k.values()):
                                        if type(x).__name__ == 'FrozenDict':
                                            sizes.append(sys.getsizeof(getattr(x, '_d', x), 0))     # the mapping's own table, not the wrapper object
                                        elif isinstance(x, (str, list, tuple, dict, set, frozenset, bytes)):
                                            sizes.append(sys.getsizeof(x, 0))
                                    return orig(*a, **k)
                                return w
                            fd.payload = mk(orig)
                    c = c.parent
                s = 'x' * max(sz - 49, 1)
                lst = list(range(max((sz - 56) // 8, 1)))
                big = "'" + 'y' * (q + 64) + "'"       # a literal that is itself larger than the quota
                lit_chains = ['len(%s)' % big, 'isString(%s)' % big, "'b' in %s" % big, '%s.len()' % big, '[%s].len()' % big, '{a => %s}.len()' % big] if sz == q // 4 else []
                for text in chains + lit_chains:
                    del sizes[:]
                    c2 = cx.create_child_context()
                    c2['s'] = s
                    c2['l'] = lst
                    c2['d'] = {'a': s}
                    binds = {}
                    o, v = evaluate(engine, c2, text, binds, None)

                    def deep(v):
                        out = []
                        if type(v).__name__ == 'FrozenDict':
                            out.append(sys.getsizeof(getattr(v, '_d', v), 0))
                            for k, x in v.items():
                                out += deep(k) + deep(x)
                        if isinstance(v, (str, list, tuple, dict, set)):
                            out.append(sys.getsizeof(v, 0))
                        if isinstance(v, dict):
                            for k, x in v.items():
                                out += deep(k) + deep(x)
                        elif isinstance(v, (list, tuple, set)):
                            for x in v:
                                out += deep(x)
                        return out
                    add({'act': 'quota', 'q': q, 'argsizes': [z for z in sizes if z > q][:5] or [0], 'retsize': max(deep(v) or [0]) if o == 'value' else 0,
                         'outcome': o}, '%s with memoryQuota=%d and operands of about %d bytes: outcome %s' % (text if len(text) < 200 else text[:60] + '...' + text[-30:], q, sz, o))
        # repetition refuses before allocating
        for q in (1000, 100000):
            engine = yaql.YaqlFactory().create(options={'yaql.memoryQuota': q})
            cx = yaql.create_context()
            for text, base in (("$s * $n", 'ab'), ("$n * $s", 'ab'), ("$l * $n", [1, 2]), ("$n * $l", [1, 2])):
                for cnt in (1, 3, 10 ** 4, 10 ** 7, 10 ** 10, 10 ** 13):
                    c2 = cx.create_child_context()
                    c2['s'] = base
                    c2['l'] = base
                    c2['n'] = cnt
                    o, v = evaluate(engine, c2, text, {}, None)
                    unit = 1 if isinstance(base, str) else 8
                    need = 1 if len(base) * cnt * unit > q else 0
                    if need == 0 and len(base) * cnt * unit + 60 > q:
                        continue        # too close to the boundary to call
                    add({'act': 'repeat', 'q': q, 'need': need, 'outcome': o}, '%s with count %d and memoryQuota=%d: outcome %s' % (text, cnt, q, o))
        rej = trace.validate(rep, wd, 'Trace_Limits', events, 'Trace_Limits/V')
        for eid, clause in rej:
            ev = events[eid]
            if ev['act'] == 'sweep':
                key = 'C08/%s/%s(%s)' % (clause, ev['fn'], ev['param']) if ev['fn'] != 'expr' else 'C08/%s/%s' % (clause, desc[eid].split(' (limit')[0])
            else:
                key = 'C08/%s/%s' % (clause, desc[eid].split(' with ')[0])
            rep.violation(key, '%s: clause %s' % (desc[eid], clause), {'event': ev, 'what': desc[eid]})
        rep.traces += len(events)
        rep.evaluations += len(events)
        rep.nontrivial = len([e for e in events if e['act'] == 'sweep' and e['pulls'] > 0])
        rep.sample({'event': events[3], 'what': desc[3]})
        rep.sample({'event': events[nsweep + 2], 'what': desc[nsweep + 2]})
        rep.rule = ('sweep: every function definition in the default context chain x every parameter whose declared type accepts an iterator, '
                    'N in {0,1,10}, with and without input conversion, plus %d composite expressions; quota: %d growth chains x 4 quotas x 3 operand '
                    'sizes with payload wrappers; repetition grid. Non-trivial = sweep calls that pulled from the source.' % (len(extra), len(chains)))
        rep.assumptions = ['sys.getsizeof is the size measure the property names', 'a 5 s alarm / source cap N+50 stand for non-termination']
    finally:
        if not keep:
            tlc.cleanup(wd)


def replay(path):
    doc = json.load(open(path))
    print(doc['desc'])
    return 1
