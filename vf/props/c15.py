"""C15 - scalar operators form a consistent arithmetic and ordering.

M  Scalars.tla: the limb arithmetic used to judge big-integer results agrees with TLC's integers (LimbSanity).
G  TLC enumerates the dispatch table (5 x 5 kinds x 11 operators + unary); every entry is replayed with
   representative operands against the real engine.
V  every ordered pair of a boundary-rich corpus under every operator, sampled triples: recorded and judged by
   Trace_Scalars.tla (dispatch, exact integer arithmetic, floor-division identity, float arithmetic = CPython's,
   ordering consistency and correctness, null lowest, repetition, equality).
"""
import itertools
import json
import operator
import random

from vf import tlc, tlaval, trace

OPS = {'add': '+', 'sub': '-', 'mul': '*', 'div': '/', 'mod': 'mod', 'lt': '<', 'le': '<=', 'gt': '>', 'ge': '>=',
       'eq': '=', 'ne': '!='}

CORPUS = [
    None, True, False,
    0, 1, -1, 2, 3, -3, 7, -7, 10, 2 ** 31 - 1, 2 ** 31, -2 ** 31, 2 ** 31 + 1, 2 ** 63 - 1, 2 ** 63, 2 ** 63 + 1, -2 ** 63 - 1,
    10 ** 40, -10 ** 40, 10 ** 40 + 1, 9999, 10000, 10001, 99999999,
    0.0, -0.0, 1.0, -1.0, 0.5, -2.5, 1e-300, 5e-324, 1e300, 1.7976931348623157e308, 2.0 ** 53, 2.0 ** 53 + 2, 3.0, 1e16,
    # integers and floats that differ only beyond the 53 bits of a float (mixed comparisons must stay exact)
    2.0 ** 63, -2.0 ** 63, 1e40, 2 ** 53, 2 ** 53 + 1, -2 ** 53 - 1, 10 ** 16 + 1,
    '', 'a', 'ab', 'b', 'A', 'aa', ' ', 'é', '中文', '\U0001f600', 'á', '10', 'z' * 3,
]

REPR_KIND = {'n': None, 'b': True, 'i': 3, 'f': 2.5, 's': 'ab'}


def enc_out(fn):
    try:
        return trace.enc(fn())
    except Exception as e:  # noqa
        n = type(e).__name__
        if n.startswith('NoMatching'):
            return ['e', 'NoMatch']
        return ['e', n]


class Eng(object):
    def __init__(self):
        import yaql
        self.engine = yaql.YaqlFactory().create()
        self.ctx = yaql.create_context()
        self.st = {k: self.engine('$a %s $b' % v) for k, v in OPS.items()}
        self.st['pos'] = self.engine('+$a')
        self.st['neg'] = self.engine('-$a')

    def ev(self, op, a, b=None):
        c = self.ctx.create_child_context()
        c['a'] = a
        c['b'] = b
        return self.st[op].evaluate(context=c)


def py_oracle(a, b):
    def num(x):
        return isinstance(x, (int, float)) and not isinstance(x, bool)
    if not (num(a) and num(b) and (isinstance(a, float) or isinstance(b, float))):
        return {'add': ['skip'], 'sub': ['skip'], 'mul': ['skip'], 'div': ['skip'], 'mod': ['skip']}
    return {'add': enc_out(lambda: a + b), 'sub': enc_out(lambda: a - b), 'mul': enc_out(lambda: a * b),
            'div': enc_out(lambda: a / b), 'mod': enc_out(lambda: a % b)}


def pair_event(eng, i, a, b):
    r = {}
    for op in OPS:
        if op == 'mul' and ((isinstance(a, str) and type(b) is int and abs(b) > 5) or (isinstance(b, str) and type(a) is int and abs(a) > 5)):
            r[op] = ['skip']
            continue
        r[op] = enc_out(lambda: eng.ev(op, a, b))
    r['rlt'] = enc_out(lambda: eng.ev('lt', b, a))
    r['rgt'] = enc_out(lambda: eng.ev('gt', b, a))
    return {'id': i, 'act': 'pair', 'a': trace.enc(a), 'b': trace.enc(b), 'r': r, 'py': py_oracle(a, b)}


MATH1 = ['bitwiseNot', 'abs', 'sign', 'isInteger', 'isNumber', 'int']
MATH2 = ['bitwiseAnd', 'bitwiseOr', 'bitwiseXor', 'shiftBitsLeft', 'shiftBitsRight', 'max', 'min', 'pow', 'round']
MATH_CORPUS = [None, True, False, 0, 1, -1, 2, 3, -3, 5, -5, 6, 7, -8, 10, 12, 15, 25, -25, 35, 45, 255, -256, 1000, -1000, 1023, 12345, -12355, 99999999,
               2 ** 31, -2 ** 63, 10 ** 20, 2.5, -0.0, 0.5, '', ' 12 ', '-7', '+3', '007', '1_0', 'x', 'ab', ' ', '12a', '9' * 30]


def math_events(eng, start, rng, quick):
    import yaql
    st = {}

    def call(fn, args):
        if (fn, len(args)) not in st:
            st[(fn, len(args))] = eng.engine('%s(%s)' % (fn, ', '.join('$a%d' % i for i in range(len(args)))))
        c = eng.ctx.create_child_context()
        for i, a in enumerate(args):
            c['a%d' % i] = a
        return st[(fn, len(args))].evaluate(context=c)
    evs = []
    objs = {}
    i = start

    def add(fn, model_fn, args):
        nonlocal i
        if fn in ('shiftBitsLeft', 'pow', 'round') and type(args[1]) is int and abs(args[1]) > 400:
            return      # (the host would really compute a number of that size)
        evs.append({'id': i, 'act': 'math', 'fn': model_fn, 'args': [trace.enc(a) for a in args], 'r': enc_out(lambda: call(fn, args))})
        objs[i] = ('math', fn) + tuple(args)
        i += 1
    for fn in MATH1:
        for a in MATH_CORPUS:
            add(fn, fn, [a])
    small = [x for x in MATH_CORPUS if type(x) is int and abs(x) <= 1023]
    for fn in MATH2:
        pool = [(a, b) for a in MATH_CORPUS for b in MATH_CORPUS]
        if quick:
            pool = rng.sample(pool, 500) + [(a, b) for a in small[:12] for b in small[:12]]
        for a, b in pool:
            add(fn, fn, [a, b])
    for _ in range(300 if quick else 3000):
        add('pow', 'powmod', [rng.choice(small + [None, True, 2.5]), rng.choice([0, 1, 2, 3, 5, 10, 33, 60, -1]), rng.choice([1, 2, 3, 7, 10, 97, 1000, 0, -7, 2.0])])
        a, b = rng.randint(-1000, 1000), rng.randint(-1000, 1000)
        fn = rng.choice(['bitwiseAnd', 'bitwiseOr', 'bitwiseXor'])
        add(fn, fn, [a, b])
        add('round', 'round', [rng.randint(-10 ** 7, 10 ** 7) * 5, rng.randint(-7, 2)])
        fn = rng.choice(['shiftBitsLeft', 'shiftBitsRight'])
        add(fn, fn, [rng.randint(-1000, 1000), rng.randint(-2, 20)])
    return evs, objs


DISPATCH_MC = '''---- MODULE MC_Scalars ----
EXTENDS Math
VARIABLES op, ka, kb, d
Init == /\\ op \\in Ops \\cup {"unary"} /\\ ka \\in Kinds /\\ kb \\in Kinds
        /\\ d = IF op = "unary" THEN UnaryDispatch(ka) ELSE Dispatch(op, ka, kb)
Next == UNCHANGED <<op, ka, kb, d>>
Spec == Init /\\ [][Next]_<<op, ka, kb, d>>
Sanity == LimbSanity((0 - 12)..12 \\cup {9999, 10000, 10001, 0 - 10000, 20000})
MathSanity == BitSanity((0 - 17)..17 \\cup {255, 256, 0 - 256, 1000, 0 - 1000, 1023}) /\\ RoundSanity((0 - 60)..60) /\\ PowSanity((0 - 4)..4)
====
'''


def run(rep, tier, seed, keep=False):
    quick = tier == 'quick'
    wd = tlc.workdir('c15')
    try:
        eng = Eng()
        # ---- M + G: limb sanity and dispatch table
        dump = wd + '/disp'
        r = tlc.ok(tlc.run('MC_Scalars', 'SPECIFICATION Spec\nINVARIANT Sanity\nINVARIANT MathSanity\n', wd, modules={'MC_Scalars': DISPATCH_MC},
                           workers=4, dump=dump))
        rep.tlc('Scalars/M LimbSanity + G dispatch table', r)
        nd = 0
        for st in tlaval.parse_dump(dump + '.dump'):
            op, ka, kb, d = str(st['op']), str(st['ka']), str(st['kb']), str(st['d'])
            a, b = REPR_KIND[ka], REPR_KIND[kb]
            if op == 'unary':
                outs = [enc_out(lambda: eng.ev('pos', a)), enc_out(lambda: eng.ev('neg', a))]
            else:
                outs = [enc_out(lambda: eng.ev(op, a, b))]
            for o in outs:
                nomatch = o == ['e', 'NoMatch']
                if nomatch != (d == 'none'):
                    rep.violation('C15/dispatch-table/%s/%s-%s' % (op, ka, kb),
                                  'operator %s on kinds (%s, %s): spec dispatch %s, real %r' % (op, ka, kb, d, o),
                                  {'op': op, 'a': repr(a), 'b': repr(b)})
            nd += 1
            rep.evaluations += 1
        rep.exhaustive = True
        rep.extra['dispatch_entries'] = nd
        # ---- V: pairs, unary, triples
        rng = random.Random(seed * 2654435761 % (2 ** 31) + 15)
        corpus = list(CORPUS)
        extra = 6 if quick else 60
        for _ in range(extra):
            k = rng.random()
            if k < 0.4:
                corpus.append(rng.choice([-1, 1]) * rng.getrandbits(rng.choice([8, 40, 70, 130, 300])))
            elif k < 0.7:
                corpus.append(rng.choice([-1, 1]) * rng.random() * 10 ** rng.randint(-20, 20))
            else:
                corpus.append(''.join(rng.choice('abAB é中') for _ in range(rng.randint(0, 4))))
        events = []
        objs = {}
        i = 0
        for a in corpus:
            for b in corpus:
                events.append(pair_event(eng, i, a, b))
                objs[i] = ('pair', a, b)
                i += 1
        for a in corpus:
            events.append({'id': i, 'act': 'unary', 'a': trace.enc(a),
                           'r': {'pos': enc_out(lambda: eng.ev('pos', a)), 'neg': enc_out(lambda: eng.ev('neg', a))}})
            objs[i] = ('unary', a)
            i += 1
        # the same with the operand written as a literal (what the parser does with a sign in front of a literal is part of it)
        def lit(v):
            if v is None:
                return 'null'
            if v is True:
                return 'true'
            if v is False:
                return 'false'
            if isinstance(v, str):
                return "'" + v.replace('\\', '\\\\').replace("'", "\\'") + "'" if v.isascii() and v.isprintable() else None
            if isinstance(v, float):
                r_ = repr(v)
                return r_ if 'e' not in r_ and 'inf' not in r_ and 'nan' not in r_ and v >= 0 and not (v == 0 and str(v).startswith('-')) else None
            return str(v) if v >= 0 and len(str(v)) < 4000 else None
        for a in corpus:
            l = lit(a)
            if l is None:
                continue
            def run_text(t):
                try:
                    return trace.enc(eng.engine(t).evaluate(context=eng.ctx.create_child_context()))
                except Exception as e:  # noqa
                    n_ = type(e).__name__
                    return ['e', 'NoMatch'] if n_.startswith('NoMatching') else ['e', n_]
            events.append({'id': i, 'act': 'unary', 'a': trace.enc(a), 'r': {'pos': run_text('+' + l), 'neg': run_text('-' + l)}})
            objs[i] = ('unary', a, 'written as the literal ' + l)
            i += 1
            events.append({'id': i, 'act': 'unary', 'a': trace.enc(a), 'r': {'pos': run_text('+ ' + l), 'neg': run_text('0 + -' + l) if False else run_text('- ' + l)}})
            objs[i] = ('unary', a, 'written as the literal ' + l + ' after a blank')
            i += 1
        nums = [x for x in corpus if isinstance(x, (int, float)) and not isinstance(x, bool)] + [None]
        strs = [x for x in corpus if isinstance(x, str)] + [None]
        ntri = 400 if quick else 6000
        for _ in range(ntri):
            pool = nums if rng.random() < 0.6 else strs
            t = [rng.choice(pool) for _ in range(3)]
            m = []
            for x in t:
                row = []
                for y in t:
                    o = enc_out(lambda: eng.ev('lt', x, y))
                    row.append(o[1] if o[0] == 'b' else 2)
                m.append(row)
            events.append({'id': i, 'act': 'triple', 'lt': m})
            objs[i] = ('triple', t)
            i += 1
        # ---- beyond the listed property: the integer side of the math library (Math.tla); disagreements are notes
        mev, mobjs = math_events(eng, i, rng, quick)
        events.extend(mev)
        objs.update(mobjs)
        rej = trace.validate(rep, wd, 'Trace_Scalars', events, 'Trace_Scalars/V')
        math_skipped = 0
        math_div = 0
        for eid, clause in list(rej):
            if objs[eid][0] == 'math':
                rej.remove((eid, clause))
                if clause.startswith('skip:'):
                    math_skipped += 1
                else:
                    math_div += 1
                    rep.note('math library differs from Math.tla: %s%r gave %s (%s)' % (objs[eid][1], objs[eid][2:], json.dumps(events[eid]['r'])[:80], clause))
        rep.extra['math_library'] = {'calls': len(mev), 'judged': len(mev) - math_skipped, 'unmodelled': math_skipped, 'divergences': math_div}
        for eid, clause in rej:
            o = objs[eid]
            ev = events[eid]
            rep.violation('C15/%s/%s' % (clause, _kinds(o)),
                          '%s %r: clause %s; results %s' % (o[0], o[1:], clause, json.dumps(ev.get('r', ev.get('lt')))[:600]),
                          {'kind': o[0], 'operands': [repr(x) for x in o[1:]], 'clause': clause})
        rep.traces += len(events)
        rep.evaluations += (len(events) - len(mev)) * 13 + len(mev)
        rep.nontrivial = len(corpus) * len(corpus)
        rep.sample(events[7])
        rep.sample(events[len(corpus) * 20 + 22])
        rep.rule = ('all ordered pairs of a %d-value boundary corpus (+%d seeded random values) under 11 binary operators and both '
                    'reversed comparisons, unary +/-, %d random triples for transitivity. distinct_nontrivial = number of ordered pairs.'
                    % (len(CORPUS), extra, ntri))
        rep.assumptions = ['CPython float arithmetic is the oracle for results involving a float (py field); NaN/inf operands are outside the corpus',
                           'value encoding vf/trace.py enc()']
    finally:
        if not keep:
            tlc.cleanup(wd)


def _kinds(o):
    def k(x):
        return 'null' if x is None else type(x).__name__
    if o[0] == 'triple':
        return 'triple'
    return '-'.join(k(x) for x in o[1:])


def replay(path):
    doc = json.load(open(path))
    print(doc['desc'])
    return 1
