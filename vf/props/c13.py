"""C13 - collection and query functions agree with their reference model.

V  Eval.tla is the executable reference model of the collections / queries functions (eager list semantics, Python
   equality, stable ordering, encounter-ordered grouping, dict/set algebra, persistent updates).  Every function x boundary
   arguments x small inputs (lists, sets, dicts, one-shot iterators, nested, empty, duplicates, nulls) and random pipelines
   of up to 4 operators are evaluated on the real engine; TLC evaluates the same AST with Eval.tla and compares
   (Trace_Eval.tla).  Algebraic laws are checked as additional expressions whose model value is `true`.
"""
import itertools
import json
import random

from vf import evalgen as g
from vf import tlc

INPUTS = [[], [1], [0, 1], [2, 1, 0], [1, 1, 2], [1, None, 2], [3, 1, 2, 1], [0, 0], [2, 2, 1, 1, 0], [None], [[1, 2], [3]], [[1, 2], [1, 3], [2, 2]],
          [None, None, 1, 1, None], [0, None, None, 0]]
X = g.var('')
PREDS = [g.bn('>', X, g.c(0)), g.bn('>', X, g.c(1)), g.bn('=', g.bn('mod', X, g.c(2)), g.c(0)), g.bn('=', X, g.c(None)), g.c(True), g.c(False)]
SELS = [X, g.bn('+', X, g.c(1)), g.bn('mod', X, g.c(3)), g.lst(X, X), g.un('-', X), g.c(7)]
BINS = [g.bn('+', g.var('1'), g.var('2')), g.var('2'), g.var('1'), g.bn('*', g.var('1'), g.c(2))]
INTS = [-2, -1, 0, 1, 2, 3, 4, 5]


def ops_for(n):
    """(name, list of argument tuples)"""
    ints = [g.c(i) for i in INTS if -2 <= i <= n + 2]
    small = [g.c(i) for i in (0, 1, 2, n, n + 1)]
    vals = [g.c(0), g.c(1), g.c(None), g.c(9), g.lst(g.c(1), g.c(2))]
    out = []
    for p in PREDS:
        for f in ('where', 'takeWhile', 'skipWhile', 'any', 'all', 'indexWhere', 'lastIndexWhere', 'sliceWhere', 'splitWhere'):
            out.append((f, (p,)))
    # slices are delimited by changes of the predicate's value, whatever it is (null included)
    out.append(('sliceWhere', (X,)))
    out.append(('sliceWhere', (g.bn('=', X, g.c(None)),)))
    for s in SELS:
        for f in ('select', 'selectMany', 'orderBy', 'orderByDescending', 'distinct', 'groupBy'):
            out.append((f, (s,)))
        out.append(('toDict', (s,)))
        out.append(('toDict', (s, g.bn('*', X, g.c(2)) if True else s)))
        out.append(('groupBy', (s, g.bn('+', X, g.c(10)))))
        out.append(('groupBy', (g.bn('mod', X, g.c(2)), s, g.mcall(g.idx(X, g.c(1)), 'len'))))
    for i in ints:
        for f in ('take', 'skip', 'limit', 'slice', 'splitAt', 'enumerate', 'indexOf', 'lastIndexOf', 'contains', 'delete', 'sum', 'max', 'min', 'first', 'last'):
            out.append((f, (i,)))
        for v in vals[:3]:
            out.append(('insert', (i, v)))
            out.append(('replace', (i, v)))
        for j in (g.c(-1), g.c(0), g.c(1), g.c(2), g.c(5)):
            out.append(('delete', (i, j)))
            out.append(('replace', (i, g.c(9), j)))
            out.append(('replaceMany', (i, g.lst(g.c(8), g.c(9)), j)))
        out.append(('insertMany', (i, g.lst(g.c(8), g.c(9)))))
        out.append(('replaceMany', (i, g.lst(g.c(8), g.c(9)))))
    for f in ('first', 'last', 'single', 'len', 'count', 'sum', 'max', 'min', 'reverse', 'distinct', 'toList', 'toSet', 'memorize', 'flatten', 'any', 'all', 'enumerate'):
        out.append((f, ()))
    for b in BINS:
        out.append(('accumulate', (b,)))
        out.append(('aggregate', (b,)))
        out.append(('accumulate', (b, g.c(10))))
        out.append(('aggregate', (b, g.c(10))))
    for v in vals:
        out.append(('append', (v,)))
        out.append(('append', (v, g.c(5))))
        out.append(('contains', (v,)))
        out.append(('indexOf', (v,)))
    out.append(('zip', (g.lst(g.c(7), g.c(8)),)))
    out.append(('zip', (g.lst(),)))
    out.append(('zipLongest', (g.lst(g.c(7)),)))
    out.append(('zipLongest', (g.lst(g.c(7), g.c(8), g.c(9), g.c(6)),)))
    out.append(('defaultIfEmpty', (g.lst(g.c(5)),)))
    out.append(('repeat', (g.c(2),)))
    out.append(('repeat', (g.c(0),)))
    for p in PREDS:
        out.append(('filter', (p,)))
        out.append(('assert', (g.bn('>', g.mcall(X, 'len'), g.c(1)),)))
    for b in BINS:
        out.append(('reduce', (b,)))
        out.append(('reduce', (b, g.c(10))))
    out.append(('concat', (g.lst(g.c(7)), g.lst())))
    out.append(('join', (g.lst(g.c(1), g.c(2), g.c(1)), g.bn('=', g.var('1'), g.var('2')), g.lst(g.var('1'), g.var('2')))))
    out.append(('join', (g.lst(g.c(0), g.c(1)), g.c(True), g.bn('+', g.var('1'), g.var('2')))))
    return out


SEQ_STAGES = {'select', 'where', 'skip', 'take', 'distinct', 'reverse', 'orderBy', 'takeWhile', 'skipWhile', 'append', 'enumerate', 'selectMany', 'insert', 'delete',
              'replace', 'accumulate', 'zip', 'slice', 'flatten', 'concat'}
THEN = [('thenBy', X), ('thenByDescending', X), ('thenBy', g.un('-', X)), ('thenByDescending', g.bn('mod', X, g.c(2)))]

DICTS = [{}, {'a': 1}, {'a': 1, 'b': 2}, {'b': [1, 2], 'a': None}, {1: 'x', 2: 'y'}, {'n': {'p': [1], 'q': 2}, 'a': {'x': 0}}]
SETS = [set(), {1}, {1, 2}, {0, 1, 2}]


def dict_ops():
    out = []
    for k in (g.c('a'), g.c('z'), g.c(1), g.kwd('b')):
        out.append(('get', (k,)))
        out.append(('get', (k, g.c(5))))
        out.append(('containsKey', (k,)))
        out.append(('set', (k, g.c(9))))
        out.append(('delete', (k,)))
        out.append(('delete', (k, g.c('a'))))
    for v in (g.c(1), g.c(None), g.c('x')):
        out.append(('containsValue', (v,)))
    for f in ('keys', 'values', 'items', 'len'):
        out.append((f, ()))
    out.append(('set', (g.mp((g.c('a'), g.c(7)), (g.c('q'), g.c(8))),)))
    out.append(('deleteAll', (g.lst(g.c('a'), g.c('zz')),)))
    # the keys as a lazily produced collection (consumed once)
    out.append(('deleteAll', (g.mcall(g.lst(g.c('b'), g.c('a'), g.c('n')), 'select', X),)))
    out.append(('deleteAll', (g.mcall(g.lst(g.c('zz'), g.c('b'), g.c(1), g.c('a')), 'where', g.c(True)),)))
    out.append(('deleteAll', (g.mcall(g.lst(g.c('a'), g.c('a'), g.c('b')), 'distinct'),)))
    for other in MERGE_OTHERS:
        o = g.c(other)
        out.append(('mergeWith', (o,)))
        out.append(('mergeWith2', (o,)))
    return out


MERGE_OTHERS = [{}, {'a': 2}, {'a': None}, {'z': 1}, {'b': [2, 3]}, {'b': 5}, {'a': {'x': 1}}, {'a': [1]}, {'n': {'p': [1, 2], 'q': None}}, {'n': {'p': [2, 3], 'r': 1}, 'a': None}]


def set_ops():
    out = []
    for other in ([], [1], [1, 2], [2, 3]):
        o = g.call('set', *[g.c(x) for x in other])
        for f in ('union', 'intersect', 'difference', 'symmetricDifference'):
            out.append((f, (o,)))
    for v in (g.c(1), g.c(5)):
        out.append(('add', (v,)))
        out.append(('add', (v, g.c(6))))
        out.append(('remove', (v,)))
        out.append(('contains', (v,)))
    for f in ('len', 'toList', 'toSet'):
        out.append((f, ()))
    return out


LAWS = [
    # each must evaluate to true on every input list (ints/nulls): algebraic laws between the operators
    lambda: g.lst(g.mcall(g.mcall(X, 'reverse'), 'reverse'), g.mcall(X, 'toList')),
    lambda: g.lst(g.bn('+', g.mcall(g.mcall(X, 'take', g.c(2)), 'toList'), g.mcall(g.mcall(X, 'skip', g.c(2)), 'toList')), g.mcall(X, 'toList')),
    lambda: g.lst(g.mcall(g.mcall(X, 'where', g.c(True)), 'len'), g.mcall(X, 'len')),
    lambda: g.lst(g.mcall(g.mcall(X, 'select', X), 'toList'), g.mcall(X, 'toList')),
    lambda: g.lst(g.mcall(g.mcall(X, 'zip', X), 'select', g.idx(X, g.c(0))), g.mcall(X, 'toList')),
    lambda: g.lst(g.mcall(g.mcall(X, 'enumerate'), 'select', g.idx(X, g.c(1))), g.mcall(X, 'toList')),
    lambda: g.lst(g.mcall(g.mcall(X, 'distinct'), 'distinct'), g.mcall(X, 'distinct')),
    lambda: g.lst(g.mcall(g.mcall(X, 'takeWhile', g.bn('!=', X, g.c(1))), 'concat', g.mcall(X, 'skipWhile', g.bn('!=', X, g.c(1)))), g.mcall(X, 'toList')),
    lambda: g.lst(g.mcall(g.mcall(g.mcall(X, 'where', g.bn('!=', X, g.c(None))), 'orderBy', X), 'count'), g.mcall(g.mcall(X, 'where', g.bn('!=', X, g.c(None))), 'len')),
    lambda: g.lst(g.mcall(g.mcall(X, 'toSet'), 'union', g.mcall(X, 'toSet')), g.mcall(X, 'toSet')),
    lambda: g.lst(g.mcall(g.mcall(X, 'groupBy', g.bn('=', X, g.c(1))), 'selectMany', g.idx(X, g.c(1))) if False else g.mcall(g.mcall(g.mcall(X, 'groupBy', g.bn('=', X, g.c(1))), 'selectMany', g.idx(X, g.c(1))), 'len'),
                 g.mcall(X, 'len')),
]


def run(rep, tier, seed, keep=False):
    quick = tier == 'quick'
    wd = tlc.workdir('c13')
    try:
        rng = random.Random(seed * 4099 + 13)
        real = g.Real()
        events = []
        desc = {}

        def add(ast, data, conv=None, note=''):
            text = g.render(ast)
            d = conv(data) if conv else data
            res, _ = real.run(text, d)
            i = len(events)
            events.append(g.event(i, ast, data, res, mode='law' if note == 'law' else 'value'))
            desc[i] = (text, data, note, res)
        # depth 1: every function x boundary args x small inputs x collection forms
        forms = [('list', None), ('iterator', lambda d: (x for x in d))]
        for inp in INPUTS:
            ops = ops_for(len(inp))
            for (f, args) in ops:
                for fname, conv in forms:
                    if f == 'repeat' and fname == 'iterator':
                        continue        # repeating a one-shot iterator object repeats the same object: no list meaning
                    add(g.mcall(X, f, *args), inp, conv, fname)
            for s in (SELS[:3] if None not in inp else []):       # (secondary selectors are applied lazily, only on ties)
                for (tf, ts) in THEN:
                    add(g.mcall(g.mcall(X, 'orderBy', s), tf, ts), inp)
                    add(g.mcall(g.mcall(g.mcall(X, 'orderByDescending', s), tf, ts), 'thenBy', g.bn('mod', X, g.c(2))), inp)
            for law in LAWS:
                add(law(), inp, None, 'law')
            # unpack: positional ($1..$n) and named, on sequences and on one-shot iterators
            for fname, conv in forms:
                add(g.bn('->', g.mcall(X, 'unpack'), g.lst(g.var('1'), g.var('2'), g.var('3'))), inp, conv, 'unpack')
                add(g.bn('->', g.mcall(g.mcall(X, 'select', X), 'unpack'), g.lst(g.var('1'), g.var('2'))), inp, conv, 'unpack')
                add(g.bn('->', g.mcall(X, 'unpack', g.kwd('a'), g.kwd('b')), g.lst(g.var('a'), g.var('b'))), inp, conv, 'unpack')
                add(g.bn('->', g.mcall(g.mcall(X, 'where', g.c(True)), 'unpack', g.kwd('a')), g.var('a')), inp, conv, 'unpack')
        for d in DICTS:
            for (f, args) in dict_ops():
                if f == 'mergeWith2':
                    add(g.mcall(X, 'mergeWith', *args, maxLevels=g.c(1)), d)
                    add(g.mcall(X, 'mergeWith', *args, maxLevels=g.c(2)), d)
                else:
                    add(g.mcall(X, f, *args), d)
            add(g.bn('+', X, g.mp((g.c('a'), g.c(3)), (g.c('n'), g.c(4)))), d)
            add(g.attr(X, 'a'), d)
            add(g.idx(X, g.c('a')), d)
            for key in ('a', 'b', 'zz', 1):
                for dflt in (g.c(9), g.c(None), g.lst()):
                    add(g.idx2(X, g.c(key), dflt), d)
        for s in SETS + [{1, 2, 3, 4, 5, 6}]:
            # inclusion order between sets (comparable and incomparable pairs)
            for other in ((), (1,), (2,), (1, 2), (1, 3), (0, 1, 2), (0, 1, 2, 3)):
                for op in ('<', '<=', '>', '>=', '=', '!='):
                    add(g.bn(op, X, g.call('set', *[g.c(v) for v in other])), s)
                    add(g.bn(op, g.call('set', *[g.c(v) for v in other]), X), s)
            for (f, args) in set_ops():
                add(g.mcall(X, f, *args), s)
            # a key selector decides what is distinct, on sets as on lists (the count does not depend on the set's order)
            add(g.mcall(g.mcall(X, 'distinct', g.bn('mod', X, g.c(2))), 'len'), s)
            add(g.mcall(g.mcall(X, 'distinct', g.c(7)), 'len'), s)
            add(g.mcall(g.mcall(g.mcall(X, 'toList'), 'distinct', g.bn('mod', X, g.c(3))), 'len'), s)
        for fn in (g.call('range', g.c(3)), g.call('range', g.c(1), g.c(4)), g.call('range', g.c(5), g.c(1), g.c(-2)), g.call('list', g.c(1), g.lst(g.c(2))),
                   g.call('dict', g.lst(g.lst(g.c('a'), g.c(1)), g.lst(g.c('b'), g.c(2)))), g.call('dict', a=g.c(1), b=g.lst()), g.call('set', g.c(1), g.c(1), g.c(2)),
                   g.bn('*', g.lst(g.c(1), g.c(2)), g.c(2)), g.bn('+', g.lst(g.c(1)), g.lst(g.c(2))), g.bn('in', g.c(1), g.lst(g.c(1))),
                   g.call('isIterable', X), g.call('isBoolean', X), g.call('examine', g.bn('>', g.mcall(X, 'len'), g.c(1)), g.c(True), g.c(None)),
                   g.call('selectAllCases', g.bn('>', g.mcall(X, 'len'), g.c(1)), g.c(True), g.c(1)),
                   g.call('generate', g.c(0), g.bn('<', X, g.c(3)), g.bn('+', X, g.c(1))),
                   g.call('generate', g.c(0), g.bn('<', X, g.c(6)), g.bn('+', X, g.c(2)), g.bn('*', X, g.c(10))),
                   g.call('generate', g.mcall(X, 'len'), g.bn('<', X, g.c(4)), g.bn('+', X, g.c(1))),
                   g.call('generateMany', g.c(1), g.mcall(g.lst(g.bn('+', X, g.c(1)), g.bn('+', X, g.c(2))), 'where', g.bn('<', X, g.c(4)))),
                   g.call('generateMany', g.c(1), g.mcall(g.lst(g.bn('+', X, g.c(1)), g.bn('+', X, g.c(2))), 'where', g.bn('<', X, g.c(5))), depthFirst=g.c(True)),
                   g.call('generateMany', g.c(1), g.mcall(g.lst(g.bn('+', X, g.c(1)), g.bn('+', X, g.c(2))), 'where', g.bn('<', X, g.c(5))), decycle=g.c(True)),
                   g.call('generateMany', g.c(1), g.mcall(g.lst(g.bn('+', X, g.c(1))), 'where', g.bn('<', X, g.c(4))), g.bn('*', X, g.c(10))),
                   # equal dicts written in different key orders are one value wherever values are hashed
                   g.mcall(g.mcall(g.lst(g.mp((g.c('a'), g.c(1)), (g.c('b'), g.c(2))), g.mp((g.c('b'), g.c(2)), (g.c('a'), g.c(1)))), 'distinct'), 'len'),
                   g.mcall(g.mcall(g.lst(g.mp((g.c('a'), g.c(1)), (g.c('b'), g.c(2))), g.mp((g.c('b'), g.c(2)), (g.c('a'), g.c(1)))), 'toSet'), 'len'),
                   g.mcall(g.mcall(g.lst(g.mp((g.c('a'), g.c(1)), (g.c('b'), g.c(2))), g.mp((g.c('b'), g.c(2)), (g.c('a'), g.c(1))), g.mp((g.c('a'), g.c(1)))), 'groupBy', X), 'len'),
                   g.bn('in', g.mp((g.c('b'), g.c(2)), (g.c('a'), g.c(1))), g.mcall(g.lst(g.mp((g.c('a'), g.c(1)), (g.c('b'), g.c(2)))), 'toSet')),
                   g.mcall(g.mcall(g.lst(g.mcall(g.mp((g.c('a'), g.c(1))), 'set', g.c('b'), g.c(2)), g.mcall(g.mp((g.c('b'), g.c(2))), 'set', g.c('a'), g.c(1))), 'distinct'), 'len'),
                   # flatten descends into every nested collection, lists and lazily produced ones alike
                   g.mcall(g.lst(g.c(0), g.call('range', g.c(1), g.c(3)), g.lst(g.lst(g.c(4)), g.c(5))), 'flatten'),
                   g.mcall(g.lst(g.mcall(X, 'select', X), g.lst(g.c(9))), 'flatten'),
                   g.mcall(g.lst(g.mcall(X, 'where', g.c(True)), g.lst(g.mcall(X, 'take', g.c(1)))), 'flatten'),
                   g.mcall(g.mcall(g.lst(g.c(2), g.c(3)), 'select', g.lst(X, g.call('range', X))), 'flatten'),
                   g.call('len', X), g.call('distinct', X), g.call('enumerate', X), g.call('isList', X), g.call('isDict', X), g.call('any', X)):
            for inp in INPUTS[:6]:
                add(fn, inp)
        # stability with distinguishable ties: pairs ordered by their first component only, every direction combination
        PAIRS = [[[2, 0], [1, 1], [2, 2], [1, 3], [2, 4]], [[1, 0], [1, 1], [1, 2]], [[3, 0], [2, 1], [3, 2], [1, 3], [2, 4], [3, 5]]]
        k0, k1 = g.idx(X, g.c(0)), g.bn('mod', g.idx(X, g.c(1)), g.c(2))
        for inp in PAIRS:
            for fname, conv in forms:
                for f in ('orderBy', 'orderByDescending'):
                    add(g.mcall(X, f, k0), inp, conv, 'stable-ties')
                    for tf in ('thenBy', 'thenByDescending'):
                        add(g.mcall(g.mcall(X, f, k0), tf, k1), inp, conv, 'stable-ties')
                        add(g.mcall(g.mcall(X, f, g.c(0)), tf, k0), inp, conv, 'stable-ties')
                add(g.mcall(X, 'groupBy', k0, g.idx(X, g.c(1))), inp, conv, 'stable-ties')
                add(g.mcall(X, 'distinct', k0), inp, conv, 'stable-ties')
        # a memorized one-shot iterator used by two consumers at once behaves like the list it buffers
        M = g.var('m')
        for inp in ([0, 1, 2, 3], [1, 2], []):
            for body in (g.mcall(M, 'zip', M), g.mcall(M, 'join', M, g.bn('<', g.var('1'), g.var('2')), g.lst(g.var('1'), g.var('2'))),
                         g.mcall(M, 'select', g.bn('+', X, g.mcall(M, 'len'))), g.lst(g.mcall(M, 'sum', g.c(0)), g.mcall(M, 'len')),
                         g.mcall(M, 'selectMany', M), g.mcall(g.mcall(M, 'skip', g.c(1)), 'zip', M)):
                add(g.bn('->', g.call('let', m=g.mcall(X, 'memorize')), body), inp, lambda d: (x for x in d), 'memorize-shared')
        # known finding: `+` on two sequences yields a one-shot iterator; accumulate() hands the same iterator out as a result element
        # and keeps it as the accumulator, so later steps see it exhausted
        add(g.mcall(X, 'accumulate', BINS[0]), [[0, 1], [1, 2], [2, 3]], None, 'iterator-valued-accumulator')
        add(g.mcall(X, 'accumulate', BINS[0], g.lst()), [[0, 1], [1, 2], [2, 3]], None, 'iterator-valued-accumulator')
        # (the elements have to be lazily produced sequences - or raw host lists - for `+` to take its chaining overload)
        add(g.mcall(g.mcall(X, 'select', g.mcall(X, 'select', X)), 'accumulate', BINS[0]), [[0, 1], [1, 2], [2, 3]], None, 'iterator-valued-accumulator')
        add(g.mcall(g.mcall(X, 'select', g.mcall(X, 'where', g.c(True))), 'accumulate', BINS[0], g.lst()), [[0, 1], [1, 2], [2, 3]], None, 'iterator-valued-accumulator')
        n1 = len(events)
        # pipelines of up to 4 operators, every lazy intermediate consumed once
        stage = [lambda: ('select', (rng.choice(SELS[:5]),)), lambda: ('where', (rng.choice(PREDS),)), lambda: ('skip', (g.c(rng.randint(0, 3)),)),
                 lambda: ('take', (g.c(rng.randint(0, 4)),)), lambda: ('distinct', ()), lambda: ('reverse', ()), lambda: ('orderBy', (rng.choice([X, g.un('-', X)]),)),
                 lambda: ('takeWhile', (rng.choice(PREDS),)), lambda: ('skipWhile', (rng.choice(PREDS),)), lambda: ('append', (g.c(rng.randint(0, 3)),)),
                 lambda: ('enumerate', ()), lambda: ('selectMany', (g.lst(X, X),)), lambda: ('insert', (g.c(rng.randint(0, 3)), g.c(9))),
                 lambda: ('delete', (g.c(rng.randint(0, 3)), g.c(rng.randint(-1, 2)))), lambda: ('replace', (g.c(rng.randint(0, 3)), g.c(7))),
                 lambda: ('accumulate', (BINS[0],)), lambda: ('zip', (g.lst(g.c(1), g.c(2), g.c(3)),)), lambda: ('slice', (g.c(rng.randint(1, 3)),)),
                 lambda: ('toSet', ()), lambda: ('memorize', ()), lambda: ('flatten', ()), lambda: ('groupBy', (g.bn('mod', X, g.c(2)),)), lambda: ('concat', (g.lst(g.c(5)),))]
        final = [lambda: ('toList', ()), lambda: ('len', ()), lambda: ('first', (g.c(-1),)), lambda: ('sum', (g.c(0),)), lambda: ('any', ()), lambda: ('last', (g.c(-1),)),
                 lambda: ('indexOf', (g.c(1),)), lambda: ('aggregate', (BINS[0], g.c(0)))]
        for _ in range(600 if quick else 80000):
            inp = [rng.choice([0, 1, 2, 3, 4, 5, 6, -1, 10, None]) for _ in range(rng.randint(0, 7))]
            inp = [x for x in inp if x is not None]      # lazily skipped elements must not be able to raise (eager model)
            e = X
            strict = X
            for _k in range(rng.randint(1, 4)):
                f, a = rng.choice(stage)()
                if f == 'accumulate' and _k > 0:
                    f, a = 'reverse', ()       # accumulating sequences with + is the known finding below; keep elements scalar
                e = g.mcall(e, f, *a)
                strict = g.mcall(strict, f, *a)
                if f in SEQ_STAGES:
                    strict = g.mcall(strict, 'toList')     # every intermediate fully consumed: the eager reading of the pipeline
            if rng.random() < 0.6:
                f, a = rng.choice(final)()
                e = g.mcall(e, f, *a)
                strict = g.mcall(strict, f, *a)
            conv = (lambda d: (x for x in d)) if rng.random() < 0.3 else None
            add(strict, inp, conv, 'pipeline')
            # laziness must not change the value: the lazy spelling agrees with the strict one whenever the strict one has a value
            sres = desc[len(events) - 1][3]
            lres, _ = real.run(g.render(e), conv(inp) if conv else inp)
            if sres[0] != 'e' and lres[0] != 'e' and json.dumps(lres, sort_keys=True) != json.dumps(sres, sort_keys=True) and '"S"' not in json.dumps(sres):
                rep.violation('C13/lazy-differs-from-strict/pipeline', '%s on %r gives %r but with every stage consumed (%s) %r' % (
                    g.render(e), inp, lres, g.render(strict), sres), {'text': g.render(e), 'data': repr(inp)})
        rej, skipped, skipped_ids = g.validate(rep, wd, events, 'Trace_Eval/C13')
        for eid, clause in rej:
            text, data, note, res = desc[eid]
            fn = events[eid]['ast'][2] if events[eid]['ast'][0] == 'mcall' and note != 'pipeline' and events[eid]['ast'][1][0] == 'var' else note or 'expr'
            if note == 'iterator-valued-accumulator':
                fn = 'accumulate/iterator-valued-accumulator'
            rep.violation('C13/%s/%s' % (clause, fn), '%s on %r (%s): real %r; clause %s' % (text, data, note, res, clause), {'text': text, 'data': repr(data), 'form': note})
        rep.traces += len(events)
        rep.evaluations += len(events)
        rep.nontrivial = len(events) - len(skipped_ids)
        rep.extra['depth1_cases'] = n1
        rep.extra['pipelines'] = len(events) - n1
        rep.extra['skipped_by_model'] = skipped
        unm = {}
        for i in skipped_ids:
            a = events[i]['ast']
            k = a[2] if a[0] == 'mcall' else (a[1] if isinstance(a[1], str) else a[0])
            unm[k] = unm.get(k, 0) + 1
        rep.extra['skipped_functions'] = unm
        rep.sample({'text': desc[3][0], 'data': desc[3][1], 'real': desc[3][3]})
        rep.sample({'text': desc[len(events) - 5][0], 'data': desc[len(events) - 5][1], 'real': desc[len(events) - 5][3]})
        rep.rule = ('depth 1: every modelled function x boundary integer arguments (-2..len+2) x lambdas of the generated family x %d small inputs as '
                    'list and as one-shot iterator, dict and set functions, algebraic laws; pipelines of <= 4 operators on random inputs. '
                    'Non-trivial = cases the model judges (not skipped as unmodelled / out of documented domain).' % len(INPUTS))
        rep.assumptions = ['negative positions of insert/delete/replace are outside the documented domain (skipped by the model, counted)',
                           'ordering keys are integers/null; string ordering belongs to C15/C19']
    finally:
        if not keep:
            tlc.cleanup(wd)


def replay(path):
    doc = json.load(open(path))
    print(doc['desc'])
    return 1
