"""C19 - string and regex functions agree with their reference model.

V  Strings.tla is the reference model (code-point sequences: find/rfind with index clamping, substring/indexOf/lastIndexOf
   windows, split/rightSplit in separator and white-space modes, trim*/norm/isEmpty, replace with counts and dictionaries,
   case mapping, startsWith/endsWith, character classes, join; regex wrappers computed from the match list the `re` engine
   supplies, including the match records published to selector lambdas).  Every function x all strings over a small
   alphabet x all start/length/count arguments in range (+ Unicode samples, generated regex family x flags) is evaluated
   on the real engine and judged by Trace_Strings.tla.
"""
import itertools
import json
import random
import re

from vf import tlc, trace


def cps(s):
    return [ord(c) for c in s]


def S(s):
    return ['n'] if s is None else ['s', cps(s)]


def enc(v):
    if v is None:
        return ['n']
    if isinstance(v, bool):
        return ['b', 1 if v else 0]
    if isinstance(v, int):
        return ['i', v]
    if isinstance(v, str):
        return ['s', cps(v)]
    if isinstance(v, (list, tuple)):
        return ['l', [enc(x) for x in v]]
    return ['o', type(v).__name__]


class Eng(object):
    def __init__(self):
        import yaql
        self.engine = yaql.YaqlFactory().create()
        self.ctx = yaql.create_context()
        self.cache = {}

    def ev(self, text, **vs):
        st = self.cache.get(text)
        if st is None:
            st = self.cache[text] = self.engine(text)
        c = self.ctx.create_child_context()
        for k, v in vs.items():
            c[k] = v
        try:
            return st.evaluate(context=c)
        except Exception as e:  # noqa
            return e


def res(v, conv=enc):
    if isinstance(v, Exception):
        return ['e', type(v).__name__]
    return conv(v)


def run(rep, tier, seed, keep=False):
    quick = tier == 'quick'
    wd = tlc.workdir('c19')
    try:
        rng = random.Random(seed * 1901 + 19)
        eng = Eng()
        events = []
        desc = {}

        def add(fn, text, s, r, **kw):
            i = len(events)
            ev = {'id': i, 'fn': fn, 's': cps(s) if s is not None else [], 'res': r}
            ev.update(kw)
            events.append(ev)
            desc[i] = (text, s, {k: v for k, v in kw.items() if k not in ('ms',)}, r)
        alpha = 'abA '
        maxlen = 3 if quick else 4
        strings = [''.join(p) for n in range(maxlen + 1) for p in itertools.product(alpha, repeat=n)]
        subs = ['', 'a', 'b', ' ', 'ab', 'aa', 'A', 'a ']
        for s in strings:
            n = len(s)
            for st in range(-n, n + 3):
                add('substring', '$s.substring($a)', s, res(eng.ev('$s.substring($a)', s=s, a=st)), a=st, b=-1)
                for ln in range(-2, n + 3):
                    add('substring', '$s.substring($a, $b)', s, res(eng.ev('$s.substring($a, $b)', s=s, a=st, b=ln)), a=st, b=ln)
            for sub in (subs if not quick else subs[:6]):
                add('indexOf1', '$s.indexOf($sub)', s, res(eng.ev('$s.indexOf($sub)', s=s, sub=sub)), sub=cps(sub))
                add('lastIndexOf1', '$s.lastIndexOf($sub)', s, res(eng.ev('$s.lastIndexOf($sub)', s=s, sub=sub)), sub=cps(sub))
                add('in', '$sub in $s', s, res(eng.ev('$sub in $s', s=s, sub=sub)), sub=cps(sub))
                for st in range(-n, n + 3):
                    add('indexOf2', '$s.indexOf($sub, $a)', s, res(eng.ev('$s.indexOf($sub, $a)', s=s, sub=sub, a=st)), sub=cps(sub), a=st)
                    add('lastIndexOf2', '$s.lastIndexOf($sub, $a)', s, res(eng.ev('$s.lastIndexOf($sub, $a)', s=s, sub=sub, a=st)), sub=cps(sub), a=st)
                    if quick and (st + n) % 2:
                        continue
                    for ln in range(-2, n + 3):
                        add('indexOf3', '$s.indexOf($sub, $a, $b)', s, res(eng.ev('$s.indexOf($sub, $a, $b)', s=s, sub=sub, a=st, b=ln)), sub=cps(sub), a=st, b=ln)
                        add('lastIndexOf3', '$s.lastIndexOf($sub, $a, $b)', s, res(eng.ev('$s.lastIndexOf($sub, $a, $b)', s=s, sub=sub, a=st, b=ln)), sub=cps(sub), a=st, b=ln)
            for sep in (None, ' ', 'a', 'ab', ''):
                for k in (-1, 0, 1, 2, 3):
                    add('split', '$s.split($sep, $k)', s, res(eng.ev('$s.split($sep, $k)', s=s, sep=sep, k=k)), sep=S(sep), a=k)
                    add('rightSplit', '$s.rightSplit($sep, $k)', s, res(eng.ev('$s.rightSplit($sep, $k)', s=s, sep=sep, k=k)), sep=S(sep), a=k)
                if sep:
                    add('splitJoin', '$s.split($sep).join($sep)', s, res(eng.ev('$s.split($sep).join($sep)', s=s, sep=sep)), sep=S(sep))
            add('split', '$s.split()', s, res(eng.ev('$s.split()', s=s)), sep=['n'], a=-1)
            for chars in (None, ' ', 'a', 'a ', 'bA', ''):
                for fn, txt in (('trim', '$s.trim($c)'), ('trimLeft', '$s.trimLeft($c)'), ('trimRight', '$s.trimRight($c)'), ('norm', '$s.norm($c)')):
                    add(fn, txt, s, res(eng.ev(txt, s=s, c=chars)), chars=S(chars))
                for tr in (True, False):
                    add('isEmpty', '$s.isEmpty($t, $c)', s, res(eng.ev('$s.isEmpty($t, $c)', s=s, t=tr, c=chars)), trim=1 if tr else 0, chars=S(chars))
            add('trim', '$s.trim()', s, res(eng.ev('$s.trim()', s=s)), chars=['n'])
            for old in ('a', 'ab', ' ', 'aa', ''):
                for new in ('', 'b', 'aa'):
                    for k in (-1, 0, 1, 2, 3):
                        add('replace', '$s.replace($o, $n, $k)', s, res(eng.ev('$s.replace($o, $n, $k)', s=s, o=old, n=new, k=k)), old=cps(old), new=cps(new), a=k)
            for pairs in ([('a', 'b'), ('b', 'a')], [('b', 'a'), ('a', 'b')], [('ab', 'A'), ('a', 'ab')], [('a', 'aa'), ('aa', 'b')], [(' ', ''), ('A', 'a')]):
                for k in (-1, 1):
                    d = dict(pairs)
                    add('replaceDict', '$s.replace($d, $k)', s, res(eng.ev('$s.replace($d, $k)', s=s, d=d, k=k)), pairs=[[cps(a), cps(b)] for a, b in pairs], a=k)
            add('toUpper', '$s.toUpper()', s, res(eng.ev('$s.toUpper()', s=s)))
            add('toLower', '$s.toLower()', s, res(eng.ev('$s.toLower()', s=s)))
            add('len', '$s.len()', s, res(eng.ev('$s.len()', s=s)))
            add('toCharArray', '$s.toCharArray()', s, res(eng.ev('$s.toCharArray()', s=s)))
            for parts in (['a'], ['b', 'a'], ['', 'x'], ['ab', ' '], ['A']):
                add('startsWith', '$s.startsWith(...)', s, res(eng.ev('$s.startsWith(%s)' % ', '.join("'%s'" % p for p in parts), s=s)), parts=[cps(p) for p in parts])
                add('endsWith', '$s.endsWith(...)', s, res(eng.ev('$s.endsWith(%s)' % ', '.join("'%s'" % p for p in parts), s=s)), parts=[cps(p) for p in parts])
                add('concat', 'concat($s, ...)', s, res(eng.ev('concat($s, %s)' % ', '.join("'%s'" % p for p in parts), s=s)), parts=[cps(p) for p in parts])
                add('join', '$p.join($s)', s, res(eng.ev('$p.join($s)', s=s, p=parts)), parts=[cps(p) for p in parts])
                add('join', '$s.join($p)', s, res(eng.ev('$s.join($p)', s=s, p=parts)), parts=[cps(p) for p in parts])
        # unicode samples through the same functions
        for s in ['é中a', 'a b', ' x ', 'İi', 'ß', 'a\U0001f600b', '\tq\n', 'x\x1fy\x85']:
            for txt, fn, kw in (('$s.trim()', 'trim', {'chars': ['n']}), ('$s.len()', 'len', {}), ('$s.toCharArray()', 'toCharArray', {}),
                                ('$s.split()', 'split', {'sep': ['n'], 'a': -1}), ('$s.toUpper()', 'toUpper', {}), ('$s.substring(1, 1)', 'substring', {'a': 1, 'b': 1}),
                                ('$s.substring(-1)', 'substring', {'a': -1, 'b': -1})):
                add(fn, txt, s, res(eng.ev(txt, s=s)), **kw)
        # character classes
        flags = ['digits', 'hexdigits', 'asciiLowercase', 'asciiUppercase', 'asciiLetters', 'letters', 'octdigits', 'punctuation', 'printable', 'lowercase', 'uppercase', 'whitespace']
        for k in (1, 2):
            for combo in itertools.combinations(flags, k):
                txt = 'characters(%s)' % ', '.join('%s => true' % f for f in combo)
                v = eng.ev(txt)
                add('characters', txt, '', res(v, lambda x: ['set', [ord(c) for c in x]]), classes=list(combo))
        nstr = len(events)
        # ---- regex: generated family x flags x strings; the match list comes from `re` on the same compiled pattern
        atoms = ['a', 'b', '.', '[ab]', 'a*', 'b+', 'a?', '(a)', '(b)?', '(?P<x>a)', '(?P<y>b*)', '(a|b)', '(?P<z>a)|(b)', ' ', 'A', '^', '$', '(a)(b)?']
        pats = set(atoms)
        for _ in range(60 if quick else 600):
            pats.add(''.join(rng.choice(atoms) for _ in range(rng.randint(1, 3))))
        pats = sorted(p for p in pats if _compiles(p))
        rstrings = [s for s in strings if len(s) <= 3] if quick else strings
        if quick:
            rstrings = rng.sample(rstrings, 30) + ['', 'a', 'ab', 'xab', 'aab ', 'Ab']
        rstrings = rstrings + ['a\nb', 'A\nab\n', '\na']       # (line ends: where multiLine and dotAll matter)
        for p in pats:
            # flag combinations: none, each alone is covered by the pairs below as well, every pair, all three
            for ic, ml, ds in ((False, False, False), (True, False, False), (True, True, False), (False, True, True), (True, False, True), (True, True, True)):
                if (ml or ds) and not any(ch in p for ch in '.^$'):
                    continue
                try:
                    cre = re.compile(p, re.UNICODE | (re.IGNORECASE if ic else 0) | (re.MULTILINE if ml else 0) | (re.DOTALL if ds else 0))
                except re.error:
                    continue
                ngroups = cre.groups
                names = sorted(cre.groupindex.items(), key=lambda kv: kv[1])
                for s in rstrings:
                    ms = []
                    for m in cre.finditer(s):
                        try:
                            exp = m.expand('[\\g<0>]')
                        except Exception:
                            exp = ''
                        ms.append({'s': m.start(), 'e': m.end(),
                                   'groups': [[1 if m.group(i) is not None else 0, m.start(i), m.end(i)] for i in range(1, ngroups + 1)],
                                   'names': [[n, gi] for n, gi in names], 'exp': cps(exp)})
                    rx = "regex($p, ignoreCase => $ic, multiLine => $ml, dotAll => $ds)"
                    kw = dict(s=s, p=p, ic=ic, ml=ml, ds=ds)
                    pd = '%r%s' % (p, (' (%s)' % ', '.join(n for n, f in (('ignoreCase', ic), ('multiLine', ml), ('dotAll', ds)) if f)) if (ic or ml or ds) else '')
                    add('matches', '%s.matches(%r)' % (pd, s), s, res(eng.ev(rx + '.matches($s)', **kw)), ms=ms)
                    if not (ic or ml or ds):
                        add('matches', '%r =~ %s' % (s, pd), s, res(eng.ev('$s =~ $p', **kw)), ms=ms)
                        add('notMatches', '%r !~ %s' % (s, pd), s, res(eng.ev('$s !~ $p', **kw)), ms=ms)
                    add('search', '%s.search(%r)' % (pd, s), s, res(eng.ev(rx + '.search($s)', **kw)), ms=ms)
                    add('searchAll', '%s.searchAll(%r)' % (pd, s), s, res(eng.ev(rx + '.searchAll($s)', **kw)), ms=ms)
                    sel = '{pos => [%s], named => [%s]}' % (', '.join('$%d' % (i + 1) for i in range(ngroups + 1)), ', '.join("['%s', $%s]" % (n, n) for n, gi in names))

                    def pub(v):
                        def rec(r):
                            if not (isinstance(r, dict) or hasattr(r, 'get')) or 'value' not in r:
                                return [['s', cps('<not a group record: %r>' % (r,))], -9, -9]      # judged (and rejected) by the model
                            return [S(r['value']), r['start'], r['end']]
                        return {'pos': [rec(r) for r in v['pos']], 'named': [[n, rec(r)] for n, r in v['named']]}
                    v = eng.ev(rx + '.search($s, %s)' % sel, **kw)
                    add('searchSel', '%s.search(%r, %s)' % (pd, s, sel), s, ['n'] if v is None else res(v, lambda x: ['pub', pub(x)]), ms=ms)
                    v = eng.ev(rx + '.searchAll($s, %s)' % sel, **kw)
                    add('searchAllSel', '%s.searchAll(%r, %s)' % (pd, s, sel), s, res(v, lambda x: ['pubs', [pub(y) for y in x]]), ms=ms)
                    for k in (0, 1, 2):
                        add('rsplit', '%s.split(%r, %d)' % (pd, s, k), s, res(eng.ev(rx + '.split($s, $k)', k=k, **kw)), ms=ms, a=k)
                        add('rreplace', "%s.replace(%r, '[\\g<0>]', %d)" % (pd, s, k), s, res(eng.ev(rx + ".replace($s, '[\\\\g<0>]', $k)", k=k, **kw)), ms=ms, a=k)
                        add('replaceBy', "%s.replaceBy(%r, '<' + $.value + '>', %d)" % (pd, s, k), s,
                            res(eng.ev(rx + ".replaceBy($s, '<' + $.value + '>', $k)", k=k, **kw)), ms=ms, a=k)
                        add('replaceByStart', "%s.replaceBy(%r, '<' + str($.start) + '>', %d)" % (pd, s, k), s,
                            res(eng.ev(rx + ".replaceBy($s, '<' + str($.start) + '>', $k)", k=k, **kw)), ms=ms, a=k)
        rej = []
        skipped = 0
        chunk = 60000
        for off in range(0, len(events), chunk):
            part = events[off:off + chunk]
            r = validate(rep, wd, part, 'Trace_Strings/V%d' % (off // chunk))
            rej += r[0]
            skipped += r[1]
        for eid, clause in rej:
            text, s, kw, r = desc[eid]
            rep.violation('C19/%s/%s' % (clause, events[eid]['fn']), '%s on %r with %s: real %s; clause %s' % (text, s, json.dumps(kw)[:200], json.dumps(r)[:300], clause),
                          {'text': text, 's': s, 'args': kw})
        rep.traces += len(events)
        rep.evaluations += len(events)
        rep.nontrivial = len(events) - skipped
        rep.extra['string_function_cases'] = nstr
        rep.extra['regex_cases'] = len(events) - nstr
        rep.extra['regex_patterns'] = len(pats)
        rep.extra['skipped_by_model'] = skipped
        for j in (10, nstr - 5, len(events) - 7):
            rep.sample({'call': desc[j][0], 's': desc[j][1], 'args': desc[j][2], 'real': desc[j][3]})
        rep.rule = ('all strings of length <= %d over {a, b, A, space} x every start in [-len, len+2] x length in [-2, len+2] x substrings/separators/'
                    'char sets/counts of the families listed in the check, Unicode samples, all single and paired character classes; regex: %d patterns of '
                    'the generated family (literals, classes, * + ?, alternation, numbered, named and non-participating groups, anchors) x ignoreCase x '
                    'strings. Non-trivial = cases the model judges.' % (maxlen, len(pats)))
        rep.assumptions = ['the `re` engine supplies the match list and template expansions (environment oracle)',
                           'case mapping is modelled for ASCII only; hex() and format functions are not modelled']
    finally:
        if not keep:
            tlc.cleanup(wd)


def _compiles(p):
    try:
        re.compile(p)
        return True
    except re.error:
        return False


def validate(rep, wd, events, label):
    import os
    path = os.path.join(wd, label.replace('/', '_') + '.ndjson')
    with open(path, 'w') as f:
        for e in events:
            f.write(json.dumps(e, sort_keys=True) + '\n')
    cfg = 'SPECIFICATION TraceSpec\nPOSTCONDITION TraceAccepted\nCHECK_DEADLOCK FALSE\n'
    r = tlc.run('Trace_Strings', cfg, wd, env={'TRACE_FILE': path}, workers=1, timeout=3000, heap='16g')
    rep.tlc(label, r)
    if r.rc != 0 or r.distinct - 1 != len(events):
        raise tlc.TLCError('Trace_Strings: rc=%s consumed %d of %d\n%s' % (r.rc, r.distinct - 1, len(events), r.out[-3000:]))
    os.remove(path)
    return [(x[1], x[2]) for x in r.printed('REJECT')], len(r.printed('SKIP'))


def replay(path):
    doc = json.load(open(path))
    print(doc['desc'])
    return 1
