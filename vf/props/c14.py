"""C14 - streaming operators consume only what they need from their source.

M/V  Trace_Streams.tla defines Need(pipeline) with the reference interpreter Eval.tla (least source prefix after which the
     result no longer changes) and judges recorded real runs over an endless counted source: termination, source pulls
     <= Need + 1, lambda applications <= reference applications on the prefix Need + 1 plus one, and the result itself.
G    pipelines of <= 2 streaming operators + a demand are enumerated exhaustively over the operator / lambda / integer
     families; longer ones (<= 4) are random.
"""
import itertools
import json
import random
import signal

from vf import evalgen as g
from vf import tlc
from vf.props import c08

X = g.var('')
c = g.c


class Ids(object):
    def __init__(self):
        self.n = 0

    def l(self, e):
        self.n += 1
        return g.tick(self.n, e)


def stages(i):
    """streaming stages; lambdas carry a probe"""
    return [
        lambda: ('select', (i.l(g.bn('+', X, c(1))),)), lambda: ('select', (i.l(g.bn('mod', X, c(3))),)), lambda: ('select', (g.lst(i.l(X), X),)),
        lambda: ('where', (g.bn('>', i.l(X), c(2)),)), lambda: ('where', (g.bn('=', g.bn('mod', i.l(X), c(2)), c(0)),)), lambda: ('where', (g.bn('=', g.bn('mod', i.l(X), c(3)), c(0)),)),
        lambda: ('selectMany', (g.lst(i.l(X), X),)), lambda: ('skip', (c(0),)), lambda: ('skip', (c(3),)), lambda: ('take', (c(2),)), lambda: ('take', (c(5),)),
        lambda: ('takeWhile', (g.bn('<', i.l(X), c(4)),)), lambda: ('skipWhile', (g.bn('<', i.l(X), c(3)),)), lambda: ('append', (c(99),)),
        lambda: ('concat', (c([7, 8]),)), lambda: ('distinct', ()), lambda: ('distinct', (i.l(g.bn('mod', X, c(4))),)), lambda: ('enumerate', ()),
        lambda: ('zip', (c([1, 2, 3]),)), lambda: ('accumulate', (g.bn('+', i.l(g.var('1')), g.var('2')),)), lambda: ('insert', (c(1), c(50))),
        lambda: ('delete', (c(1), c(2))), lambda: ('replace', (c(1), c(60))), lambda: ('replace', (c(2), c(60), c(3))), lambda: ('slice', (c(2),)), lambda: ('memorize', ()),
        lambda: ('join', (c([1, 2]), g.bn('=', g.bn('mod', i.l(g.var('1')), c(3)), g.var('2')), g.lst(g.var('1'), g.var('2')))),
        lambda: ('limit', (c(4),)),
        # the stream as the argument of a list's method / the right operand of `+`: the list's items first, the stream as far as demanded
        lambda: ('prepend', (c([7, 8]),)), lambda: ('prepend', (c([]),), '+'), lambda: ('prepend', (c([7, 8, 9]),), '+'),
        # inner collections that are themselves lazy: their lambda runs only for what is consumed
        lambda: ('selectMany', (g.mcall(g.call('range', g.bn('+', g.bn('mod', X, c(3)), c(2))), 'select', i.l(g.bn('*', X, c(10)))),)),
        lambda: ('join', (g.mcall(c([1, 2, 0, 1]), 'select', i.l(g.bn('mod', X, c(2)))), g.bn('=', g.bn('mod', i.l(g.var('1')), c(2)), g.var('2')),
                          g.lst(g.var('1'), g.var('2')))),
    ]


def demands(i):
    return [
        lambda: ('take', (c(0),)), lambda: ('take', (c(1),)), lambda: ('take', (c(3),)), lambda: ('take', (c(4),)), lambda: ('first', ()), lambda: ('first', (c(-1),)),
        lambda: ('any', ()), lambda: ('any', (g.bn('>', i.l(X), c(1)),)), lambda: ('all', (g.bn('<', i.l(X), c(2)),)), lambda: ('indexOf', (c(2),)),
        lambda: ('indexWhere', (g.bn('>', i.l(X), c(2)),)), lambda: ('takeWhile', (g.bn('<', i.l(X), c(3)),)),
    ]


def build(chain):
    e = X
    for st in chain:
        f, a = st[0], st[1]
        if f == 'prepend':
            e = g.bn('+', a[0], e) if len(st) > 2 else g.mcall(a[0], 'concat', e)
        else:
            e = g.mcall(e, f, *a)
    return e


def real_run(engine, ctx, text, cap, tick_log, iterable=False):
    r = _real_run(engine, ctx, text, cap, tick_log, iterable, 5.0)
    if r[0] == 'timeout':
        r = _real_run(engine, ctx, text, cap, tick_log, iterable, 45.0)       # (a busy machine can stall a short watchdog)
    return r


def _real_run(engine, ctx, text, cap, tick_log, iterable, timeout):
    from yaql.language import exceptions as exc
    src = c08.CountedIterable(cap) if iterable else c08.Counted(cap)
    del tick_log[:]
    signal.signal(signal.SIGALRM, c08._alarm)
    signal.setitimer(signal.ITIMER_REAL, timeout)
    try:
        v = engine(text).evaluate(data=src, context=ctx.create_child_context())
        return 'value', g.jv(v), src.pulls
    except c08.Alarm:
        return 'timeout', ['e', 'timeout'], src.pulls
    except c08.SourceOverrun:
        return 'overrun', ['e', 'overrun'], src.pulls
    except BaseException as e:  # noqa
        signal.setitimer(signal.ITIMER_REAL, 0)
        cause = e
        for _ in range(12):
            if cause is None:
                break
            if isinstance(cause, c08.SourceOverrun):
                return 'overrun', ['e', 'overrun'], src.pulls
            cause = getattr(cause, 'wrapped', None) or cause.__cause__ or cause.__context__
        return 'error', ['e', type(e).__name__], src.pulls
    finally:
        signal.setitimer(signal.ITIMER_REAL, 0)


def run(rep, tier, seed, keep=False):
    import yaql
    quick = tier == 'quick'
    wd = tlc.workdir('c14')
    try:
        rng = random.Random(seed * 1409 + 14)
        engine = yaql.YaqlFactory().create()
        ctx = yaql.create_context()
        tick_log = []

        def tick(i, v):
            tick_log.append(i)
            return v
        ctx.register_function(tick, name='tick')
        B = 40
        events = []
        desc = {}

        # a second engine whose iterator limit is switched on but far away: the guard around every operator input must not
        # change what is consumed
        engine_lim = yaql.YaqlFactory().create(options={'yaql.limitIterators': 500})

        def add(chain_builder, note):
            ids = Ids()
            chain = chain_builder(ids)
            ast = build(chain)
            text = g.render(ast)
            # (the source handed over as `$` is an iterator; on the plain engine also an object that is merely iterable)
            for eng_, tag, itb in ((engine, '', False), (engine_lim, ' [limitIterators=500]', False), (engine, ' [source: a re-iterable object]', True)):
                if itb and note not in ('depth0', 'depth1'):
                    continue
                outcome, res, pulls = real_run(eng_, ctx, text, B + 60, tick_log, iterable=itb)
                cnt = {}
                for t in tick_log:
                    cnt[t] = cnt.get(t, 0) + 1
                i = len(events)
                events.append({'id': i, 'stages': [{'f': st_[0], 'args': [g.tla_ast(x) for x in st_[1]]} for st_ in chain[:-1]],
                               'demand': {'f': chain[-1][0], 'args': [g.tla_ast(x) for x in chain[-1][1]]}, 'fuel': B,
                               'pulls': pulls, 'outcome': outcome, 'res': res, 'ticks': [[k, v] for k, v in sorted(cnt.items())] or [[0, 0]]})
                desc[i] = (text + tag, outcome, pulls, dict(cnt), note)
        # exhaustive: <= 1 stage + demand (quick) / <= 2 stages + demand (thorough; quick samples the 2-stage ones)
        ns = len(stages(Ids()))
        nd = len(demands(Ids()))
        for d in range(nd):
            add(lambda i, d=d: [demands(i)[d]()], 'depth0')
            for s1 in range(ns):
                add(lambda i, s1=s1, d=d: [stages(i)[s1](), demands(i)[d]()], 'depth1')
        pairs = [(a, b, d) for a in range(ns) for b in range(ns) for d in range(nd)]
        if quick:
            pairs = rng.sample(pairs, 2500)
        for (a, b, d) in pairs:
            add(lambda i, a=a, b=b, d=d: [stages(i)[a](), stages(i)[b](), demands(i)[d]()], 'depth2')
        for _ in range(400 if quick else 30000):
            k = rng.randint(3, 4)
            add(lambda i: [rng.choice(stages(i))() for _ in range(k)] + [rng.choice(demands(i))()], 'random')
        # validate
        import os
        path = os.path.join(wd, 'streams.ndjson')
        with open(path, 'w') as f:
            for e in events:
                f.write(json.dumps(e, sort_keys=True) + '\n')
        cfg = 'SPECIFICATION TraceSpec\nPOSTCONDITION TraceAccepted\nCHECK_DEADLOCK FALSE\n'
        r = tlc.run('Trace_Streams', cfg, wd, env={'TRACE_FILE': path}, workers=1, timeout=3000, heap='12g')
        rep.tlc('Trace_Streams/V', r)
        if r.rc != 0 or r.distinct - 1 != len(events):
            raise tlc.TLCError('Trace_Streams: rc=%s consumed %d of %d\n%s' % (r.rc, r.distinct - 1, len(events), r.out[-3000:]))
        skipped = {}
        skipped_ids = set()
        for x in r.printed('SKIP'):
            skipped[x[2]] = skipped.get(x[2], 0) + 1
            skipped_ids.add(x[1])
        for x in r.printed('REJECT'):
            eid, clause = x[1], x[2]
            text, outcome, pulls, cnt, note = desc[eid]
            ops = '.'.join([st['f'] for st in events[eid]['stages']] + [events[eid]['demand']['f']])
            if clause in ('value', 'model-error-real-value', 'real-error-model-value'):
                # the result itself is C13's subject; here it only keeps the transducer model honest
                rep.note('result differs from the transducer model (%s): %s -> outcome %s' % (clause, text, outcome))
                continue
            rep.violation('C14/%s/%s' % (clause, ops), '%s over the endless source: outcome %s, %d pulls, lambda applications %s; clause %s' % (
                text, outcome, pulls, cnt, clause), {'text': text})
        rep.traces += len(events)
        rep.evaluations += len(events)
        rep.nontrivial = len(events) - len(skipped_ids)
        rep.extra['skipped_by_model'] = skipped
        rep.extra['pipelines'] = {'depth<=1': nd * (ns + 1), 'depth2': len(pairs), 'random 3-4': 400 if quick else 30000}
        rep.exhaustive = not quick
        for j in (5, 200, len(events) - 2):
            rep.sample({'text': desc[j][0], 'outcome': desc[j][1], 'pulls': desc[j][2], 'lambda_applications': desc[j][3]})
        rep.rule = ('pipelines = streaming stages (%d stage shapes over select, where, selectMany, skip, take, takeWhile, skipWhile, append, concat, '
                    'distinct, enumerate, zip, accumulate, insert, delete, replace, slice, memorize, join, limit) followed by a demand (%d shapes: take k, '
                    'first, any, all, indexOf, indexWhere, takeWhile); all of depth <= 1, depth 2 %s, random depth 3-4. Non-trivial = pipelines '
                    'whose result stabilises within %d source elements (judged).' % (ns, nd, 'sampled' if quick else 'exhaustive', B))
        rep.assumptions = ['source cap %d pulls / 5 s alarm stand for non-termination' % (B + 60)]
    finally:
        if not keep:
            tlc.cleanup(wd)


def _chain_names(ast):
    out = []
    while ast[0] == 'mcall':
        out.append((ast[2],))
        ast = ast[1]
    return list(reversed(out))


def replay(path):
    doc = json.load(open(path))
    print(doc['desc'])
    return 1
