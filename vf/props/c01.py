"""C01 - a shared engine parses every text as if it were alone.

M  EngineParse.tla: Isolation/OwnTokens/NoSharedLexer for clone-per-parse (all interleavings of
   2-3 parses at token-fetch granularity) and for sequential histories on a shared lexer;
   a negative job (shared lexer, concurrent) must violate Isolation - the model can express the defect.
G  every terminal state of the concurrent model carries its schedule; each schedule is forced onto
   real threads by a scheduler gated at ply.lex.Lexer.input/token, results compared with a fresh engine.
   Sequential histories (orders of texts incl. failing ones) are replayed on one engine.
V  free-running threads under a 1 microsecond switch interval; lexer usage recorded and validated
   against the ownership discipline by Trace_EngineParse.tla; results compared with a fresh engine.
"""
import itertools
import json
import os
import random
import sys
import threading
import time

from vf import sched, tlc, tlaval

# model token -> real spellings
SPELL = {
    'a': ['x', '$v', "'s t'", 'foo', 'nm'],
    'b': ['1', '2.5', 'true', '42'],
    'o': ['*', '<', 'and', 'or', '/', '>='],
    'X': ['#', '@', '^'],
    'B': ['7' * 4400],          # a numeral longer than the interpreter's str -> int conversion limit
}

MODEL_TEXTS = [
    ('a',), ('b',), ('a', 'o', 'b'), ('b', 'o', 'a'), ('a', 'o'), ('o', 'a'), ('a', 'b'), ('a', 'X'),
    ('a', 'o', 'b', 'o', 'a'), ('a', 'o', 'X'), ('X',), ('b', 'o', 'b', 'b'),
]


def concretise(mt, rng):
    return ' '.join(rng.choice(SPELL[t]) for t in mt)


def confusable(text, k):
    """A text that a lossy cache key (whitespace-collapsed, case-folded, stripped, truncated) would confuse with `text`."""
    k = k % 6
    if k == 0:
        return text.replace(' ', '  ')                 # also inside string literals
    if k == 1:
        return text.replace("'s t'", "'s\tt'").replace(' ', '\t', 1) if ' ' in text else text + ' '
    if k == 2:
        return ''.join(c.upper() if c.isalpha() and c not in 'andortrue' else c for c in text)
    if k == 3:
        return ' ' + text + '  '
    if k == 4:
        return text.replace("'s t'", "'S T'").replace('foo', 'Foo').replace('nm', 'nM').replace('x', 'X')
    return text.replace('1', '10').replace("'s t'", "'s t '")


def project_tree(e):
    from yaql.language import expressions as ex
    if isinstance(e, ex.Statement):
        return project_tree(e.expression)
    if isinstance(e, ex.Wrap):
        return project_tree(e.expr)
    if isinstance(e, ex.Function):
        return (type(e).__name__, e.name, tuple(project_tree(a) for a in e.args))
    if isinstance(e, ex.GetContextValue):
        return ('var', project_tree(e.path))
    if isinstance(e, ex.Constant):
        return (type(e).__name__, repr(e.value))
    if isinstance(e, ex.MappingRuleExpression):
        return ('map', project_tree(e.source), project_tree(e.destination))
    return ('?', repr(e))


def outcome(fn):
    try:
        return ('tree', project_tree(fn()))
    except Exception as e:  # noqa
        return ('exc', type(e).__name__, tuple(repr(a) for a in e.args), getattr(e, 'position', None))


_fresh_cache = {}


def fresh(text):
    """What the text gives on a fresh engine (the reference the property names)."""
    if text not in _fresh_cache:
        import yaql
        eng = yaql.YaqlFactory().create()
        _fresh_cache[text] = outcome(lambda: eng(text))
    return _fresh_cache[text]


COLD_PAIRS = [("f(true, null) and not $x or 1 mod 2", "g(false) or null in [true] and not 2"),
              ("1 +", "foo(2, x and"),                      # both end too early: each error must talk about its own text
              ("x.y(1, 'a b') >= 2.5", "not true and f(null, 'c d')"),
              ("1 +", "a or not b mod 3"),
              ("true # 1", "null and f(true)"),
              ("[1, 2", "'s' #")]


def cold_preemption(rep, quick, rng):
    """First parse on a cold engine, preempted at one line of the library's own parsing code (lexer / parser / engine
    modules) while a second thread parses another text completely on the same engine: every preemption point in thorough,
    a sample in quick.  In model terms these are interleaving points inside one token-fetch step of EngineParse.tla; the
    specification says the step touches nothing another parse can see, so both results must be the fresh-engine ones."""
    import os
    import yaql
    base = os.path.dirname(os.path.abspath(yaql.__file__))
    ran = 0

    def parse_with_preemption(a, b, k):
        eng = yaql.YaqlFactory().create()
        st = {'n': 0, 'fired': False, 'b': None}

        def local(frame, event, arg):
            if event == 'line':
                st['n'] += 1
                if st['n'] == k and not st['fired']:
                    st['fired'] = True
                    sys.settrace(None)

                    def body():
                        st['b'] = outcome(lambda: eng(b))
                    th = threading.Thread(target=body)
                    th.daemon = True
                    th.start()
                    th.join(3.0)      # (an engine that serialises its parses keeps the second one waiting: not an interleaving then)
                    st['th'] = th
                    sys.settrace(tracer)
            return local

        def tracer(frame, event, arg):
            if frame.f_code.co_filename.startswith(base):
                return local
            return None
        sys.settrace(tracer)
        try:
            ra = outcome(lambda: eng(a))
        finally:
            sys.settrace(None)
        if st.get('th') is not None and st['th'].is_alive():
            st['th'].join(5.0)
            if st['th'].is_alive():
                st['b'] = ('does-not-return',)
            else:
                st['serialised'] = True
        if st.get('serialised'):
            serialised[0] += 1
        return ra, st['b'], st['n']
    serialised = [0]
    for a, b in COLD_PAIRS[:(2 if quick else len(COLD_PAIRS))]:
        for x, y in ((a, b), (b, a)):
            _, _, n = parse_with_preemption(x, y, -1)
            points = list(range(1, n + 1))
            if quick and len(points) > 65:
                # lazily initialised state is written early in the first parse, error reporting state at its end: both ends
                # densely, the middle sampled
                points = points[:25] + sorted(rng.sample(points[25:-25], 15)) + points[-25:]
            for k in points:
                if serialised[0] >= 3:
                    rep.extra['cold_preemption'] = 'the engine keeps a second parse waiting until the first has finished: no preemption possible'
                    return ran
                ra, rb, _ = parse_with_preemption(x, y, k)
                ran += 1
                rep.evaluations += 2
                if rb == ('does-not-return',):
                    rep.violation('C01/cold-preemption/does-not-return', 'cold engine: a parse of %r started while the parse of %r was at library line %d did not come back '
                                  '(5 s after the first one had finished)' % (y, x, k), {'mode': 'cold', 'first': x, 'second': y, 'line': k})
                    return ran
                for t, got in ((x, ra), (y, rb)):
                    if got is not None and got != fresh(t):
                        rep.violation('C01/cold-preemption/%s' % fresh(t)[0],
                                      'cold engine: parse of %r preempted at library line %d of %d by a complete parse of %r: %r gave %r, fresh engine gives %r' % (
                                          x, k, n, y, t, got, fresh(t)), {'mode': 'cold', 'first': x, 'second': y, 'line': k})
    rep.extra['cold_preemption_runs'] = ran
    return ran


INT_LIMIT = sys.get_int_max_str_digits() if hasattr(sys, 'get_int_max_str_digits') else 0


def gated(gate):
    def maker(orig):
        def wrapper(self, *a, **k):
            gate()
            return orig(self, *a, **k)
        return wrapper
    return maker


def run_schedule(engine, texts, schedule):
    """texts: dict p -> text. Force `schedule` (list of p) at Lexer.input/token granularity."""
    from ply import lex
    s = sched.Scheduler(schedule, timeout=2.0)
    s.release_on_stall = True
    with sched.Patch() as p:
        p.wrap(lex.Lexer, 'input', gated(s.gate))
        p.wrap(lex.Lexer, 'token', gated(s.gate))
        res = s.run({pid: (lambda t=t: outcome(lambda: engine(t))) for pid, t in texts.items()})
    return res, s


CFG = '''SPECIFICATION Spec
CONSTANTS
 Texts <- MCTexts
 NP = %(np)d
 Shared = %(shared)s
 Sequential = %(seq)s
%(invs)s
%(view)s
'''


def mc_module(texts):
    return ('---- MODULE MC_EngineParse ----\nEXTENDS EngineParse\nMCTexts == %s\nMCToggle == TRUE\n'
            'PrintTerminal == IF AllDone THEN PrintT(<<"T", text, sched, [p \\in Parses |-> result[p].kind]>>) ELSE TRUE\n'
            '====\n' % tlaval.to_tla(tuple(tuple(t) for t in texts)))


def job(wd, texts, np, shared, seq, invs, view=True, terminals=False, timeout=1800, allow=False, workers=8, toggle=False):
    c = CFG % dict(np=np, shared='TRUE' if shared else 'FALSE', seq='TRUE' if seq else 'FALSE',
                   invs='\n'.join('INVARIANT ' + i for i in invs), view='VIEW SchedView' if view else '')
    if toggle:
        c = c.replace('CONSTANTS\n', 'CONSTANTS\n Toggle <- MCToggle\n', 1)
    if terminals:
        c += 'CONSTRAINT PrintTerminal\n'
        workers = 1
    r = tlc.run('MC_EngineParse', c, wd, modules={'MC_EngineParse': mc_module(texts)}, workers=workers,
                timeout=timeout, coverage=not terminals)
    if not allow:
        tlc.ok(r)
    return r


def run(rep, tier, seed, keep=False):
    import yaql
    quick = tier == 'quick'
    rng = random.Random(seed * 104729 + 11)
    wd = tlc.workdir('c01')
    old_switch = sys.getswitchinterval()
    try:
        small = MODEL_TEXTS[:8]
        invs = ['Isolation', 'OwnTokens', 'NoSharedLexer', 'ProcessStateRestored']
        big = [('a',), ('B',), ('a', 'o', 'B'), ('B', 'o')]
        # ---------------- M
        r = job(wd, big, 2, False, False, invs)
        rep.tlc('EngineParse/M clone, 2 concurrent parses with numerals above the conversion limit', r)
        r = job(wd, big, 2, False, False, ['Isolation'], allow=True, toggle=True)
        if 'Isolation' not in r.violated:
            raise tlc.TLCError('negative model job (process-wide setting toggled per parse) did not violate Isolation\n' + r.out[-1500:])
        rep.tlc('EngineParse/M engine toggling a process-wide setting per parse (must violate Isolation)', r)
        r = job(wd, small, 2, False, False, invs)
        rep.tlc('EngineParse/M clone, 2 concurrent parses', r)
        r = job(wd, MODEL_TEXTS[:5] if quick else small, 3, False, False, invs, workers=16)
        rep.tlc('EngineParse/M clone, 3 concurrent parses', r)
        r = job(wd, small, 3 if quick else 4, True, True, invs, workers=16)
        rep.tlc('EngineParse/M shared lexer, sequential histories', r)
        r = job(wd, small, 2, True, False, ['Isolation'], allow=True)
        if 'Isolation' not in r.violated:
            raise tlc.TLCError('negative model job did not violate Isolation - model cannot express the defect\n' + r.out[-1500:])
        rep.tlc('EngineParse/M shared lexer, concurrent (must violate Isolation)', r)
        rep.extra['negative_model_job'] = 'Isolation violated under Shared=TRUE as expected'

        # ---------------- G: schedules
        engine = yaql.YaqlFactory().create()
        nsched = 0
        ntriv = 0
        infeasible = [0]
        hung = [0]

        def replay_states(states, label, engine, cap=None, force=None, reset=False):
            nonlocal nsched, ntriv
            todo = list(states)
            if force and not reset:
                todo = [st for st in todo if any(force(gtexts[i - 1]) for i in _vals(st['text']))]
            if cap and len(todo) > cap:
                todo = rng.sample(todo, cap)
            for st in todo:
                if hung[0] >= 3 or infeasible[0] >= 25:
                    break       # parses hang / the engine serialises its parses: forcing further interleavings adds nothing
                text = _vals(st['text'])
                mts = [gtexts[i - 1] for i in text]
                texts = {p + 1: (force and force(mt)) or concretise(mt, rng) for p, mt in enumerate(mts)}
                schedule = list(st['sched'])
                if (force or reset) and hasattr(sys, 'set_int_max_str_digits'):
                    sys.set_int_max_str_digits(INT_LIMIT)       # every schedule starts from the process state the harness started with
                res, s = run_schedule(engine, texts, schedule)
                nsched += 1
                rep.evaluations += 1
                switches = sum(1 for a, b in zip(schedule, schedule[1:]) if a != b)
                if switches >= 2:
                    ntriv += 1
                if nsched % 499 == 1:
                    rep.sample({'texts': texts, 'schedule': schedule})
                if s.infeasible:
                    infeasible[0] += 1
                for p, t in texts.items():
                    got = res.get(p)
                    if got is None:
                        # the parse call neither returned nor raised (whether or not the forced order was realisable)
                        rep.violation('C01/%s/does-not-return' % label, 'parse of %r started under schedule %s (with %r) did not come back within %.0f s' % (
                            t if len(t) < 200 else t[:80] + '...', schedule, {k: (v if len(v) < 80 else v[:40] + '...') for k, v in texts.items()}, 6.0),
                            {'texts': {k: (v if len(v) < 200 else v[:80] + '...') for k, v in texts.items()}, 'schedule': schedule, 'mode': 'schedule'})
                        hung[0] += 1
                        continue
                    if got[0] != 'ok':
                        raise RuntimeError('scheduler failure %r on %r %r' % (got, texts, schedule))
                    exp = fresh(t)
                    if got[1] != exp:
                        sh = lambda x: x if len(repr(x)) < 300 else repr(x)[:120] + ' ... (%d characters)' % len(repr(x))
                        rep.violation('C01/%s/%s' % (label, exp[0]),
                                      'parse of %s under schedule %s gave %s, fresh engine gives %s' % (sh(t), schedule, sh(got[1]), sh(exp)),
                                      {'texts': {k: sh(v) for k, v in texts.items()}, 'schedule': schedule, 'mode': 'schedule'})
                    # fidelity: model's prediction of the kind of outcome
                    mk = _vals(st['result'])[p - 1]
                    rk = 'tree' if exp[0] == 'tree' else ('lex' if 'Lexical' in exp[1] else 'gram')
                    if mk != rk:
                        rep.note('model predicts %s for %r, fresh engine gives %s' % (mk, t, rk))
            return len(todo)

        def terminals(r):
            return [{'text': t[1], 'sched': t[2], 'result': t[3]} for t in r.printed('T')]

        gtexts = small
        r = job(wd, gtexts, 2, False, False, invs, view=False, terminals=True)
        rep.tlc('EngineParse/G schedules of 2 parses', r)
        n2 = replay_states(terminals(r), 'schedule2', engine, cap=2500 if quick else None)
        # every interleaving of texts holding a numeral above the interpreter's conversion limit (token "B" of the model): a
        # parse must not depend on process-wide settings another parse is changing; each schedule starts from the process
        # state the harness started with
        gtexts = big
        r = job(wd, gtexts, 2, False, False, invs, view=False, terminals=True)
        rep.tlc('EngineParse/G schedules of 2 parses with numerals above the conversion limit', r)
        n2 += replay_states(terminals(r), 'schedule2', engine, cap=600 if quick else None, force=lambda mt: None, reset=True)
        gtexts = [('a',), ('o',), ('a', 'b')] if quick else [('a',), ('o',), ('a', 'b'), ('a', 'o', 'b')]
        r = job(wd, gtexts, 3, False, False, invs, view=False, terminals=True)
        rep.tlc('EngineParse/G schedules of 3 parses', r)
        n3 = replay_states(terminals(r), 'schedule3', engine, cap=1500 if quick else 60000)
        rep.extra['schedules_replayed'] = {'2 parses': n2, '3 parses': n3, 'not realisable (a thread blocked outside the gates)': infeasible[0]}

        # ---------------- G: sequential histories on one engine (incl. failing texts, same text twice)
        gtexts = MODEL_TEXTS
        hlen = 3 if quick else 4
        r = job(wd, gtexts if not quick else MODEL_TEXTS[:10], hlen, True, True, invs, view=False, terminals=True)
        rep.tlc('EngineParse/G sequential histories', r)
        nh = 0
        engines = [yaql.YaqlFactory().create(), None]
        seenh = set()
        for st in terminals(r):
            order = []
            for p in st['sched']:
                if p not in order:
                    order.append(p)
            key = tuple(_vals(st['text'])[p - 1] for p in order)
            if key in seenh:
                continue
            seenh.add(key)
            hist = []
            first_spelling = {}
            for j, i in enumerate(key):
                if i in first_spelling:
                    # the same model text again: identical once, then variants a lossy cache key would confuse
                    v = first_spelling[i] if (nh + j) % 3 == 0 else confusable(first_spelling[i], nh + j)
                    hist.append(v)
                else:
                    first_spelling[i] = concretise((MODEL_TEXTS[:10] if quick else gtexts)[i - 1], rng)
                    hist.append(first_spelling[i])
            for which in (0, 1):
                if which == 1:
                    # the module-level engine used by yaql.eval
                    try:
                        import yaql as _y
                        _y.eval('1')
                        eng = getattr(_y, '_default_engine', None) or engines[0]
                    except Exception:
                        eng = engines[0]
                    if eng is engines[0]:
                        break
                else:
                    eng = engines[0]
                for t in hist:
                    got = outcome(lambda: eng(t))
                    if got != fresh(t):
                        rep.violation('C01/history/%s' % fresh(t)[0],
                                      'after history %r parse of %r gave %r, fresh engine gives %r' % (hist, t, got, fresh(t)),
                                      {'history': hist, 'mode': 'history'})
                        break
            nh += 1
            rep.evaluations += 1
            if nh % 301 == 1:
                rep.sample({'history': hist})
        # histories of literals that differ in their quote style only (and therefore in how the text between the quotes is read),
        # in every order on one engine of its own: a memo keyed by less than the whole token would confuse them
        import itertools
        bodies = ['tab\\there, and a few more characters', 'bad \\x escape zz, long enough', "it\\'s quoted \\\\ and long enough", 'no escape at all in this long one']
        nlh = 0
        for body in bodies:
            lits = ["'%s'" % body, '"%s"' % body, '`%s`' % body, "'%s' " % body]
            for perm in itertools.permutations(lits, 3):
                eng_l = yaql.YaqlFactory().create()
                for t in perm:
                    got = outcome(lambda: eng_l(t))
                    nlh += 1
                    if got != fresh(t):
                        rep.violation('C01/history/literal-styles', 'after history %r parse of %r gave %r, fresh engine gives %r' % (list(perm), t, got, fresh(t)),
                                      {'history': list(perm), 'mode': 'history'})
                        break
        rep.evaluations += nlh
        rep.extra['literal_style_history_parses'] = nlh
        rep.extra['histories_replayed'] = nh
        rep.traces += nsched + nh
        rep.nontrivial = ntriv

        # ---------------- V: free-running threads, recorded lexer usage validated by the trace spec
        from ply import lex
        sys.setswitchinterval(1e-6)
        nthreads = 4
        rounds = 6 if quick else 60
        per = 60 if quick else 120
        lock = threading.Lock()
        events = []
        lexids = {}
        txtids = {}
        tls = threading.local()
        seqno = [0]

        def rec(ev):
            ev['seq'] = seqno[0]
            seqno[0] += 1
            events.append(ev)

        def wrap_input(orig):
            def w(self, s):
                r_ = orig(self, s)
                p = getattr(tls, 'p', None)
                if p is not None:
                    with lock:
                        rec({'ev': 'Begin', 'p': p, 'lx': lexids.setdefault(id(self), len(lexids) + 1),
                             'txt': txtids.setdefault(s, len(txtids) + 1), 'p0': 0, 'p1': 0, 'tr': tls.tr})
                return r_
            return w

        def wrap_token(orig):
            def w(self):
                p = getattr(tls, 'p', None)
                p0 = self.lexpos
                try:
                    return orig(self)
                finally:
                    if p is not None:
                        with lock:
                            rec({'ev': 'Fetch', 'p': p, 'lx': lexids.setdefault(id(self), len(lexids) + 1),
                                 'txt': txtids.setdefault(self.lexdata, len(txtids) + 1), 'p0': p0,
                                 'p1': max(self.lexpos, p0) if self.lexpos >= p0 else self.lexpos, 'tr': tls.tr})
            return w

        rep.traces += cold_preemption(rep, quick, rng)
        long_texts = []
        for i in range(12):
            n = rng.randint(3, 12)
            mt = []
            for j in range(n):
                mt += [rng.choice('ab'), 'o']
            mt = mt[:-1]
            if rng.random() < 0.3:
                mt.insert(rng.randrange(len(mt)), rng.choice(['a', 'X', 'o']))
            long_texts.append(concretise(mt, rng))
        wrong = 0
        total = 0
        keep_objs = []   # keep lexer clones alive so that id() is not reused within a trace
        with sched.Patch() as pt:
            pt.wrap(lex.Lexer, 'input', wrap_input)
            pt.wrap(lex.Lexer, 'token', wrap_token)
            orig_clone = lex.Lexer.clone

            def clone_keep(self, object=None):
                c = orig_clone(self, object)
                keep_objs.append(c)
                return c
            lex.Lexer.clone = clone_keep
            try:
                for rd in range(rounds):
                    eng = yaql.YaqlFactory().create()
                    pid = [0]
                    results = []

                    def body(k):
                        tls.tr = rd
                        r2 = random.Random(seed * 31 + rd * 7 + k)
                        for i in range(per):
                            t = r2.choice(long_texts)
                            with lock:
                                pid[0] += 1
                                me = pid[0]
                            tls.p = me
                            got = outcome(lambda: eng(t))
                            tls.p = None
                            with lock:
                                rec({'ev': 'End', 'p': me, 'lx': 0, 'txt': 0, 'p0': 0, 'p1': 0, 'tr': rd})
                            results.append((t, got))
                    ths = [threading.Thread(target=body, args=(k,)) for k in range(nthreads)]
                    for t in ths:
                        t.daemon = True
                        t.start()
                    deadline = time.time() + 60
                    for t in ths:
                        t.join(max(0.1, deadline - time.time()))
                    if any(t.is_alive() for t in ths):
                        rep.violation('C01/free-running/does-not-return', 'free-running threads on one engine: %d of %d threads did not finish their parses within 60 s' % (
                            sum(1 for t in ths if t.is_alive()), len(ths)), {'mode': 'free', 'threads': nthreads})
                        break
                    for t, got in results:
                        total += 1
                        if got != fresh(t):
                            wrong += 1
                            rep.violation('C01/free-running/%s' % fresh(t)[0],
                                          'free-running threads: parse of %r gave %r, fresh engine gives %r' % (t, got, fresh(t)),
                                          {'mode': 'free', 'text': t, 'threads': nthreads})
                    del keep_objs[:]
            finally:
                lex.Lexer.clone = orig_clone
        sys.setswitchinterval(old_switch)
        rep.evaluations += total
        rep.extra['free_running_parses'] = total
        rep.extra['free_running_wrong_results'] = wrong
        path = os.path.join(wd, 'trace.ndjson')
        with open(path, 'w') as f:
            for e in events:
                f.write(json.dumps(e) + '\n')
        c = 'SPECIFICATION TraceSpec\nPOSTCONDITION TraceAccepted\nCHECK_DEADLOCK FALSE\n'
        r = tlc.run('Trace_EngineParse', c, wd, env={'TRACE_FILE': path}, workers=1, timeout=1800)
        rep.tlc('Trace_EngineParse/V', r)
        rej = r.printed('REJECT')
        if r.rc != 0 and not rej:
            raise tlc.TLCError('Trace_EngineParse failed\n' + r.out[-2000:])
        firsts = {}
        for x in rej:
            firsts.setdefault((x[1], x[3]), x)
        for (tr, clause), x in sorted(firsts.items())[:5]:
            rep.violation('C01/discipline/%s' % clause,
                          'free-running trace %d event %d violates %s (%d rejections in all)' % (tr, x[2], clause, len(rej)),
                          {'mode': 'free', 'clause': clause})
        rep.extra['V_events_validated'] = len(events)
        rep.traces += rounds
        rep.rule = ('G: every interleaving (TLC terminal states) of 2 parses over 8 texts and 3 parses over %d texts at '
                    'Lexer.input/token granularity, forced by a gate scheduler; sequential histories of %d texts; V: %d free-running '
                    'threads. Non-trivial = schedule with >= 2 thread switches.' % (len(gtexts), hlen, nthreads))
        rep.assumptions = ['fresh-engine result is the reference (same factory, default operator table)',
                           'scheduling points are Lexer.input and Lexer.token (bytecode-level races inside ply are covered only by the free-running part)']
    finally:
        sys.setswitchinterval(old_switch)
        if not keep:
            tlc.cleanup(wd)


def _vals(v):
    if isinstance(v, tuple):
        return list(v)
    return [v[k] for k in sorted(v)]


def replay(path):
    import yaql
    doc = json.load(open(path))
    c = doc['case']
    print(doc['desc'])
    if c.get('mode') == 'schedule':
        eng = yaql.YaqlFactory().create()
        texts = {int(k): v for k, v in c['texts'].items()}
        res, s = run_schedule(eng, texts, c['schedule'])
        for p, t in texts.items():
            print(p, repr(t), 'got', res[p][1], 'fresh', fresh(t), 'OK' if res[p][1] == fresh(t) else 'MISMATCH')
    elif c.get('mode') == 'history':
        eng = yaql.YaqlFactory().create()
        for t in c['history']:
            got = outcome(lambda: eng(t))
            print(repr(t), 'got', got, 'fresh', fresh(t), 'OK' if got == fresh(t) else 'MISMATCH')
    return 1
