"""C07 - expressions cannot reach host objects except through granted members.

M  Yaqlization.tla: for every settings combination the allow/deny decision is the same for the three access forms and a
   private name is never reached (SameAcrossForms, NoPrivate).
G  every settings x member name x form state with the spec's decision is replayed on a real yaqlized probe object whose
   __getattribute__/__getitem__ log which member was reached.
V  a NOT yaqlized canary (neither iterable nor sized, logging __getattribute__/__getitem__/__call__/__format__, holding a
   secret marker) is placed in every parameter position of every registered function (bare, inside list/dict/set, as dict
   key) and under every operator / member / index form with attack strings; Trace_Yaqlization.tla judges every event.
"""
import itertools
import json
import random
import re
import signal

from vf import tlc, tlaval, trace
from vf.props import c08

SECRET = 'S3CR3T-MARK3R-7f3a'
NAMES = ['pub', 'pub2', '_priv', '__dunder__', 'src', 'dst', 'listed']
ENTRY = {
    'E1': lambda: 'pub',
    'E2': lambda: re.compile('p'),
    'E3': lambda: (lambda n: n in ('listed', 'dst')),
    'E4': lambda: 'src',
    'E5': lambda: re.compile('^_'),
    'E6': lambda: re.compile('ub'),
}


def make_probe_class(subscriptable=True):
    log = []

    class Probe(object):
        def __getattribute__(self, name):
            if name not in ('__class__', '__yaqlization__', '__dict__'):
                log.append(('attr', name))
            return object.__getattribute__(self, name)

        def __getitem__(self, key):
            log.append(('item', key))
            return 'I:%s' % (key,)
    if not subscriptable:
        del Probe.__getitem__
    for n in NAMES:
        def m(self, *a, _n=n, **k):
            return 'M:' + _n
        setattr(Probe, n, m)
    return Probe, log


class Canary(object):
    """opaque host object: not yaqlized, not iterable, not sized"""
    log = None

    def __init__(self, log):
        object.__setattr__(self, '_log', log)
        object.__setattr__(self, '_secret', SECRET)
        object.__setattr__(self, 'secret', SECRET)

    def __getattribute__(self, name):
        object.__getattribute__(self, '_log').append(name)
        return object.__getattribute__(self, name)

    def __getitem__(self, key):
        object.__getattribute__(self, '_log').append('__getitem__(%r)' % (key,))
        return SECRET

    def __call__(self, *a, **k):
        object.__getattribute__(self, '_log').append('__call__')
        return SECRET

    def __format__(self, spec):
        # format(obj) with an empty spec is the implicit str() protocol the runtime uses to render error messages;
        # only a caller-supplied format spec is logged
        if spec:
            object.__getattribute__(self, '_log').append('__format__:' + spec)
        return '<canary>'

    def reveal(self):
        return SECRET

    def __repr__(self):
        return '<canary>'
    __str__ = __repr__


CFG = '''SPECIFICATION Spec
CONSTANTS
 Names <- MCNames
 Private <- MCPrivate
 Entries <- MCEntries
 EntryMatches <- MCMatches
 RemapSrc = "src"
 RemapDst = "dst"
 MaxList = %d
 SwitchSets <- MCSwitchSets
INVARIANT SameAcrossForms
INVARIANT NoPrivate
'''


def run(rep, tier, seed, keep=False):
    import yaql
    from yaql import yaqlization
    from yaql.language import exceptions as exc
    quick = tier == 'quick'
    wd = tlc.workdir('c07')
    try:
        rng = random.Random(seed * 75 + 7)
        # ---------------- G + M
        sw = '{<<TRUE, TRUE, TRUE>>, <<FALSE, TRUE, TRUE>>, <<TRUE, FALSE, TRUE>>, <<TRUE, TRUE, FALSE>>}' if quick else 'BOOLEAN \\X BOOLEAN \\X BOOLEAN'
        mod = '---- MODULE MC_Yaq_cfg ----\nEXTENDS MC_Yaqlization\nMCSwitchSets == %s\n====\n' % sw
        dump = wd + '/g'
        r = tlc.ok(tlc.run('MC_Yaq_cfg', CFG % (1 if quick else 2), wd, modules={'MC_Yaq_cfg': mod}, workers=16, dump=dump, timeout=3000))
        rep.tlc('Yaqlization/G+M settings x names x forms', r)
        engine = yaql.YaqlFactory().create()
        # history: some other part of the host created a context with delegates enabled earlier in this process;
        # the context used below is a default one (delegates off) and must not inherit anything from it
        yaql.create_context(delegates=True)
        ctx = yaql.create_context()
        n = 0
        nreach = 0
        stmts = {}
        # settings belong to the object, not to its class: next to the fresh class per state, every state is also
        # replayed on an instance of ONE class shared by the whole run (the states before it - other settings, same
        # names - are its history; the model has no such history, so the decision must be the same)
        SharedProbe, shared_log = make_probe_class()
        states = list(tlaval.parse_dump(dump + '.dump'))
        rng.shuffle(states)
        for st in states:
            s, form, name, dec = st['s'], str(st['form']), str(st['name']), st['dec']
            Probe, log = make_probe_class()
            obj = Probe()
            remap = None
            if s['remap']:
                # the (target, argument-map) form of a remapping is meaningful for method calls only
                remap = {'src': ('dst', {})} if (n % 2 and form == 'method') else {'src': 'dst'}
            # (the two ways of writing it: yaqlize(obj, settings...) and the decorator form yaqlize(settings...)(obj))
            kw_ = dict(yaqlize_attributes=bool(s['attrs']), yaqlize_methods=bool(s['methods']), yaqlize_indexer=bool(s['indexer']),
                       whitelist=[ENTRY[str(e)]() for e in sorted(s['wl'])] or None, blacklist=[ENTRY[str(e)]() for e in sorted(s['bl'])] or None,
                       attribute_remapping=remap, blacklist_remapped_attributes=bool(s['blr']))
            if n % 3 == 2:
                yaqlization.yaqlize(**kw_)(obj)
            else:
                yaqlization.yaqlize(obj, **kw_)
            del log[:]
            if form == 'attr':
                text = '$o.%s' % name if not name.startswith('__') else None
            elif form == 'method':
                text = '$o.%s()' % name
            else:
                text = "$o['%s']" % name
            n += 1
            if text is None:
                # the keyword form of a dunder name does not even lex: the name cannot be written -> nothing reached
                try:
                    engine('$o.%s' % name)
                    got = ('parsed', None)
                except exc.YaqlParsingException:
                    got = ('deny', None)
            else:
                if text not in stmts:
                    stmts[text] = engine(text)
                c = ctx.create_child_context()
                c['o'] = obj
                try:
                    stmts[text].evaluate(context=c)
                    got = ('ok', list(log))
                except Exception as e:  # noqa
                    got = ('deny', list(log), type(e).__name__)
            rep.evaluations += 1
            if text is not None:
                objs = SharedProbe()
                yaqlization.yaqlize(objs, yaqlize_attributes=bool(s['attrs']), yaqlize_methods=bool(s['methods']), yaqlize_indexer=bool(s['indexer']),
                                    whitelist=[ENTRY[str(e)]() for e in sorted(s['wl'])] or None, blacklist=[ENTRY[str(e)]() for e in sorted(s['bl'])] or None,
                                    attribute_remapping=remap, blacklist_remapped_attributes=bool(s['blr']))
                del shared_log[:]
                cs = ctx.create_child_context()
                cs['o'] = objs
                try:
                    stmts[text].evaluate(context=cs)
                    gots = ('ok', list(shared_log))
                except Exception as e:  # noqa
                    gots = ('deny', list(shared_log), type(e).__name__)
                rep.evaluations += 1
                if gots != got:
                    rep.violation('C07/policy/depends-on-other-instances/%s' % form, '%s with settings %r: an instance of a class whose other instances were yaqlized with other settings gives %r, '
                                  'an instance of a fresh class %r' % (text, {k: (sorted(str(x) for x in v) if isinstance(v, frozenset) else bool(v)) for k, v in s.items()}, gots, got),
                                  {'form': form, 'name': name})
            if form == 'index' and text is not None:
                # the same on an object whose class cannot be indexed: indexing must not turn into anything else
                Probe2, log2 = make_probe_class(subscriptable=False)
                obj2 = Probe2()
                yaqlization.yaqlize(obj2, yaqlize_attributes=bool(s['attrs']), yaqlize_methods=bool(s['methods']), yaqlize_indexer=bool(s['indexer']),
                                    whitelist=[ENTRY[str(e)]() for e in sorted(s['wl'])] or None, blacklist=[ENTRY[str(e)]() for e in sorted(s['bl'])] or None,
                                    attribute_remapping=remap, blacklist_remapped_attributes=bool(s['blr']))
                del log2[:]
                c2 = ctx.create_child_context()
                c2['o'] = obj2
                try:
                    stmts[text].evaluate(context=c2)
                    got2 = 'ok'
                except Exception:  # noqa
                    got2 = 'deny'
                if got2 == 'ok' or log2:
                    rep.violation('C07/policy/unsubscriptable-object-indexed', '%s on a yaqlized object whose class has no __getitem__: %s, reached %r (settings %r)' % (
                        text, got2, list(log2), {k: (sorted(str(x) for x in v) if isinstance(v, frozenset) else bool(v)) for k, v in s.items()}), {'form': form, 'name': name})
            want = str(dec['kind'])
            case = {'settings': {k: (sorted(str(x) for x in v) if isinstance(v, frozenset) else bool(v)) for k, v in s.items()}, 'form': form, 'name': name}
            reached = [x for x in (got[1] or [])]
            if want == 'deny':
                if got[0] != 'deny' or reached:
                    rep.violation('C07/policy/denied-name-reached/%s' % form, '%s with settings %r: spec denies, real %r' % (text or name, case['settings'], got), case)
            else:
                nreach += 1
                member = str(dec['member'])
                exp = [('item', member)] if form == 'index' else [('attr', member)]
                if got[0] != 'ok' or reached != exp:
                    rep.violation('C07/policy/granted-member-mismatch/%s' % form, '%s with settings %r: spec reaches exactly %r, real %r' % (text, case['settings'], exp, got), case)
            if n % 1999 == 1:
                rep.sample(dict(case, decision=want))
        rep.exhaustive = True
        rep.nontrivial = nreach
        rep.extra['policy_states'] = n
        rep.traces += n
        # ---------------- G: how the grant spreads over a history (auto_yaqlize_result)
        dump = wd + '/grant'
        r = tlc.ok(tlc.run('YaqlizationGrant', 'SPECIFICATION Spec\nCONSTANTS\n MaxHist = %d\nINVARIANT OnlyObtainedInstances\n' % (4 if quick else 5), wd,
                           workers=4, dump=dump))
        rep.tlc('YaqlizationGrant/G+M histories', r)
        nh = 0
        for st in tlaval.parse_dump(dump + '.dump'):
            hist = [str(x) for x in st['hist']]
            if not hist:
                continue

            class K(object):
                def __init__(self):
                    self.secret = 'K-' + SECRET

            class R(object):            # yaqlized by the host itself, restrictively: only `pub`
                def __init__(self):
                    self.pub = 'public'
                    self.secret = 'R-' + SECRET
            yaqlization.yaqlize(R, whitelist=['pub'], yaqlize_methods=False, yaqlize_indexer=False)

            class Holder(object):
                def __init__(self, child, rchild=None):
                    self.child = child
                    self.rchild = rchild
            objs = {'k1': K(), 'k2': K(), 'k3': K(), 'r1': R(), 'r2': R()}
            a = yaqlization.yaqlize(Holder(objs['k1'], objs['r1']), auto_yaqlize_result=True)
            b = yaqlization.yaqlize(Holder(objs['k3']))
            got = []
            for h in hist:
                c = ctx.create_child_context()
                c['a'], c['b'] = a, b
                if h == 'obtainA':
                    text, c['o'] = '$a.child', None
                elif h == 'obtainB':
                    text, c['o'] = '$b.child', None
                elif h == 'obtainRA':
                    text, c['o'] = '$a.rchild', None
                elif '.' in h:
                    text, c['o'] = '$o.' + h.split('.')[1], objs[h.split('.')[0]]
                else:
                    text, c['o'] = '$o.secret', objs[h]
                try:
                    v = engine(text).evaluate(context=c)
                    got.append('ok' if h.startswith('obtain') else 'reach')
                except Exception:
                    got.append('deny')
            nh += 1
            rep.evaluations += len(hist)
            if got != [str(x) for x in st['obs']]:
                rep.violation('C07/grant-history', 'history %s: real %s, spec %s' % (hist, got, [str(x) for x in st['obs']]), {'history': hist})
        rep.extra['grant_histories'] = nh
        rep.traces += nh
        # ---------------- V: containment of a non-yaqlized canary
        events = []
        desc = {}
        log = []
        canary = Canary(log)
        probes_seen = set()

        def run_expr(text, binds, fn, where):
            c = ctx.create_child_context()
            for k, v in binds.items():
                c[k] = v
            del log[:]
            signal.signal(signal.SIGALRM, c08._alarm)
            signal.setitimer(signal.ITIMER_REAL, 3.0)
            txt = ''
            try:
                try:
                    st = engine(text)
                except Exception as e:  # noqa
                    txt = str(e)
                    st = None
                if st is not None:
                    v = st.evaluate(context=c)
                    txt = repr(v)
                    if isinstance(v, str):
                        txt += v
            except c08.Alarm:
                txt = 'timeout'
            except BaseException as e:  # noqa
                try:
                    txt = '%s %s' % (type(e).__name__, e)
                except Exception:
                    txt = type(e).__name__
            finally:
                signal.setitimer(signal.ITIMER_REAL, 0)
            seen = [x for x in log]
            probes_seen.update(x for x in seen if x in ('__class__', '__yaqlization__'))
            i = len(events)
            events.append({'id': i, 'fn': fn.encode('ascii', 'replace').decode(), 'where': where, 'log': [x.encode('ascii', 'replace').decode() for x in seen][:20],
                           'secret': 1 if SECRET in txt else 0})
            desc[i] = '%s  [canary %s]: canary saw %s%s' % (text, where, seen[:6], ', SECRET in output' if SECRET in txt else '')
        attacks = ['{0.__class__}', '__class__', '%s', '_secret', 'secret', 'reveal', '{0._secret}', '{}']
        engine_d = yaql.YaqlFactory(allow_delegates=False).create()
        cases, _ = c08.sweep_cases(ctx, engine)      # parameters accepting iterators -> place canary inside collections there
        seen_pos = set()
        for name, fd in c08.all_fds(ctx):
            ps = c08.visible_params(fd)
            for ti, tp in enumerate(ps):
                from yaql.language import yaqltypes
                if isinstance(tp.value_type, yaqltypes.LazyParameterType):
                    continue
                wraps = [('bare', canary), ('in list', [canary]), ('dict value', {'k': canary}), ('dict key', {canary: 1}), ('in set', {canary}), ('nested', [[canary], {'a': [canary]}])]
                for where, val in wraps:
                    try:
                        if not tp.value_type.check(val, ctx, engine):
                            continue
                    except Exception:
                        continue
                    spec = []
                    ok = True
                    for i, p in enumerate(ps):
                        if i == ti:
                            spec.append(('val', val))
                        elif isinstance(p.value_type, yaqltypes.LazyParameterType):
                            spec.append(('text', '$'))
                        else:
                            for cnd in attacks + c08.CANDS:
                                try:
                                    if p.value_type.check(cnd, ctx, engine):
                                        spec.append(('val', cnd))
                                        break
                                except Exception:
                                    continue
                            else:
                                spec.append(('omit',))
                    text, binds = c08.render(name, fd, spec)
                    if text is None:
                        continue
                    key = (text, where, tp.name)
                    if key in seen_pos:
                        continue
                    seen_pos.add(key)
                    del log[:]
                    run_expr(text, binds, name, where + ' in ' + tp.name)
        # the canary where a lambda is expected: call(name, args, kwargs) hands values over to lazy parameters
        nlam = 0
        for name, fd in c08.all_fds(ctx):
            if name.startswith('#') or name in ('call',):
                continue
            ps = c08.visible_params(fd)
            from yaql.language import yaqltypes
            for ti, tp in enumerate(ps):
                if not isinstance(tp.value_type, yaqltypes.Lambda):
                    continue
                vals = []
                ok = True
                for i, p in enumerate(ps):
                    if i == ti:
                        vals.append('$c')
                    elif isinstance(p.value_type, yaqltypes.LazyParameterType):
                        vals.append('1')
                    else:
                        for k, cnd in enumerate([[1, 2], 'a', 2, {'a': 1}, True, None]):
                            try:
                                if p.value_type.check(cnd, ctx, engine):
                                    vals.append('$k%d' % k)
                                    break
                            except Exception:
                                continue
                        else:
                            if p.default is not None and 'NO_DEFAULT' not in repr(p.default):
                                break
                            ok = False
                            break
                if not ok:
                    continue
                binds = {'c': canary, 'k0': [1, 2], 'k1': 'a', 'k2': 2, 'k3': {'a': 1}, 'k4': True, 'k5': None}
                texts = []
                if fd.is_function:
                    texts.append("call('%s', [%s], {})" % (name, ', '.join(vals)))
                if fd.is_method and vals and vals[0] != '$c':
                    texts.append("call('%s', [%s], {}, %s)" % (name, ', '.join(vals[1:]), vals[0]))
                for t in texts:
                    nlam += 1
                    run_expr(t, binds, 'call-into-lambda-parameter/%s/%s' % (name, tp.name), 'as a lambda argument through call()')
        rep.extra['canary_in_lambda_positions'] = nlam
        # operators, member access and index forms, call(), attack strings
        forms = ['$c.x', '$c.secret', '$c._secret', '$c.reveal()', '$c.x()', '$c?.secret', '$c?.reveal()', "$c['secret']", "$c['_secret']", '$c[0]', '$c[secret]',
                 '$c + 1', '1 + $c', '$c * 2', '-$c', '$c < 1', '$c = $c', '$c != 1', '$c in [$c]', 'not $c', '$c and 1', '$c or 1', '$c -> $', '$c.select($)',
                 'str($c)', 'int($c)', 'float($c)', 'bool($c)', 'len($c)', 'list($c)', 'dict($c)', 'dict([$c])', 'dict(a => $c)', '[$c].select($.secret)',
                 '[$c].select($._secret)', '{a => $c}.a.secret', '[$c].secret', "call(reveal, [$c], {})", "call('secret', [$c], {})", "call(str, [$c], {})",
                 "'{0.secret}'.format($c)" if False else "format('{0.secret}', $c)", "'%s'.format($c)" if False else "'{0}' + str($c)", 'generateMany(1, $c).take(3)',
                 'generateMany($c, [$]).take(2)', '[$c].flatten()', '[$c].selectMany($)', '[[$c]].selectMany($)', '$c.toList()', 'toList($c)', 'isList($c)', 'isDict($c)',
                 'isString($c)', 'max($c, 1)', 'min($c, $c)', '[$c, $c].distinct()', '[$c].toSet()', 'set($c)', '[$c].orderBy($)', '[$c, $c].orderBy($)', '[$c].sum()',
                 '{$c => 1}.keys()', '[$c].zip([1])', '[$c].indexOf($c)', 'coalesce($c, 1)', 'switch($c => 1)', '$c.as($ => x) -> $x', 'let(x => $c) -> $x.secret',
                 'def(f, $c) -> f().secret', '$c.unpack()', '[$c].unpack(a) -> $a.secret', "regex('a').matches($c)", "'a'.join([$c])", '[$c].join(",")', "'a' + $c",
                 "$c.toUpper()", "hex($c)", '$c mod 2', 'range($c)', 'random($c)' if False else 'abs($c)', 'datetime($c)', 'timespan(days => $c)', '$c.__class__',
                 '$c.__dict__', "$c['__class__']", '$c.__getattribute__(secret)', '#operator_.($c, secret)' if False else '$c.reveal', "[$c].select($.reveal())",
                 "[$c].where($.secret = 1)", "$c.assert(false, '{0.secret}')", "$c.assert(false, '{0._secret}')", "$c.assert(false, '{0.__class__}')",
                 "$c.assert(0, '{}')", "assert($c, false, '{0.secret}')", "[$c].assert(false, '{0[0].secret}')", "$c.assert(false)", "$c.assert(true, '{0.secret}')",
                 "call('#call', [$c], {})", "call('#call', [$c, 1], {})", "call('#call', [$c], {a => 1})",
                 "call('lambda', [$c], {})", "call('#operator_.', [$c, secret], {})", "call('#indexer', [$c, secret], {})", "call('#method_call', [$c, reveal], {})" if False else "call(call, ['#call', [$c], {}], {})", "[$c].all($.secret)", "{a => $c}.values().select($.secret)", "[$c].aggregate($1.secret)", "[$c, 1].aggregate($1.secret)"]
        for t in forms:
            run_expr(t, {'c': canary}, 'expr', 'as $c')
        # with delegates enabled calling a value from the data is the documented grant of that mode: not part of P1
        rej = trace.validate(rep, wd, 'Trace_Yaqlization', events, 'Trace_Yaqlization/V')
        for eid, clause in rej:
            ev = events[eid]
            fn = ev['fn']
            if fn == 'expr':
                fn = desc[eid].split('  [canary')[0]
            rep.violation('C07/containment/%s/%s' % (clause, fn), desc[eid] + ': clause ' + clause, {'event': ev})
        rep.traces += len(events)
        rep.evaluations += len(events)
        rep.extra['containment_calls'] = len(events)
        rep.extra['runtime_probes_seen'] = sorted(probes_seen)
        rep.sample({'event': events[1], 'what': desc[1]})
        rep.rule = ('G: all settings (switch sets, white/blacklists of <= %d of 5 entries of the three kinds, remapping, blacklistRemapped) x 7 member '
                    'names x 3 forms; non-trivial = states where a member is reached. V: %d calls placing a non-yaqlized canary in every parameter '
                    'position of every registered function (6 wrappings) and under %d operator/member/index/attack forms.' % (1 if quick else 2, len(events), len(forms)))
        rep.assumptions = ['the canary observes through __getattribute__/__getitem__/__call__/__format__ only (implicit protocol slots such as __eq__/__hash__/'
                           '__bool__/__str__ are not "reaching a member"; the secret scan still covers what they return)']
    finally:
        if not keep:
            tlc.cleanup(wd)


def replay(path):
    doc = json.load(open(path))
    print(doc['desc'])
    return 1
