"""C20 - date/time values denote instants consistently.

M  DateTime.tla: AlgebraLaws on a small range (the model itself satisfies the statement's laws).
V  full-range datetimes/offsets/timespans/timestamps and naive/aware host objects are evaluated on the real engine;
   operands and results are projected to (days, seconds, microseconds, offset) and judged by Trace_DateTime.tla:
   construction from parts (civil calendar computed in TLA+), component/offset properties, timestamp <-> datetime
   round trips within float tolerance, utc, +/- laws, comparisons by instant, unit properties, naive = UTC.
"""
import datetime as dtm
import json
import math
import random
from fractions import Fraction

from vf import tlc, trace

UTC = dtm.timezone.utc
EPOCH0 = dtm.datetime(1, 1, 1, tzinfo=UTC)
E1970 = dtm.datetime(1970, 1, 1, tzinfo=UTC)


def pts(td):
    return [td.days, td.seconds, td.microseconds]


def pdt(d):
    aware = d if d.tzinfo is not None else d.replace(tzinfo=UTC)
    td = aware - EPOCH0
    off = aware.utcoffset()
    secs = off.days * 86400 + off.seconds
    if secs % 60 or off.microseconds:
        return ['badoffset', secs]
    return [td.days, td.seconds, td.microseconds, secs // 60]


def us_triple(frac_us):
    """integer microseconds (python int) -> normalised triple"""
    n = int(frac_us)
    d, r = divmod(n, 86400 * 10 ** 6)
    s, u = divmod(r, 10 ** 6)
    return [d, s, u]


def float_us(v, unit_us):
    """a float quantity in some unit -> nearest integer microseconds, and a tolerance (2 ulp, at least 1us)"""
    fr = Fraction(v) * unit_us
    n = math.floor(fr + Fraction(1, 2))
    tol = max(1, int(math.ceil(2 * math.ulp(abs(v) if v else 1e-300) * unit_us))) + 1
    return n, tol


class Eng(object):
    def __init__(self):
        import yaql
        self.engine = yaql.YaqlFactory().create()
        self.ctx = yaql.create_context()
        self.cache = {}

    def ev(self, text, **vs):
        st = self.cache.get(text)
        if st is None:
            st = self.cache[text] = self.engine(text)
        c = self.ctx.create_child_context()
        for k, v in vs.items():
            c[k] = v
        return st.evaluate(context=c)


def rand_dt(rng, lo=2, hi=9998):
    k = rng.random()
    if k < 0.25:
        y = rng.choice([lo, lo + 1, 1899, 1900, 1969, 1970, 1971, 1999, 2000, 2001, 2038, 2100, hi - 1, hi])
    else:
        y = rng.randint(lo, hi)
    mo = rng.choice([1, 2, 2, 3, 12, rng.randint(1, 12)])
    mx = 29 if (mo == 2 and (y % 4 == 0 and y % 100 != 0 or y % 400 == 0)) else [31, 28, 31, 30, 31, 30, 31, 31, 30, 31, 30, 31][mo - 1]
    dd = rng.choice([1, mx, rng.randint(1, mx)])
    h = rng.choice([0, 23, rng.randint(0, 23)])
    mi = rng.choice([0, 59, rng.randint(0, 59)])
    s = rng.choice([0, 59, rng.randint(0, 59)])
    us = rng.choice([0, 999999, 1, rng.randint(0, 999999)])
    return y, mo, dd, h, mi, s, us


def rand_off(rng):
    return rng.choice([0, 0, 60, -60, 180, 330, -570, 1439, -1439, rng.randint(-1439, 1439)])


def mk_tz(rng, off):
    from dateutil import tz
    k = rng.randint(0, 2)
    if off == 0 and k == 0:
        return tz.tzutc()
    if k == 1:
        return dtm.timezone(dtm.timedelta(minutes=off))
    return tz.tzoffset(None, off * 60)


def rand_ts(rng):
    k = rng.random()
    if k < 0.3:
        return dtm.timedelta(days=rng.choice([0, 1, -1, 365, -366]), seconds=rng.choice([0, 1, 86399]), microseconds=rng.choice([0, 1, 999999]))
    return dtm.timedelta(days=rng.randint(-400000, 400000) if k < 0.6 else rng.randint(-3, 3), hours=rng.randint(-30, 30), minutes=rng.randint(-90, 90),
                         seconds=rng.randint(-4000, 4000), milliseconds=rng.randint(-5000, 5000), microseconds=rng.randint(-10 ** 7, 10 ** 7))


def inrange(d, t):
    try:
        lo, hi = dtm.datetime(3, 1, 1, tzinfo=UTC), dtm.datetime(9997, 1, 1, tzinfo=UTC)
        return lo < d + t < hi and lo < d - t < hi
    except OverflowError:
        return False


def out(fn):
    try:
        return fn()
    except Exception as e:  # noqa
        return e


def run(rep, tier, seed, keep=False):
    quick = tier == 'quick'
    wd = tlc.workdir('c20')
    try:
        rng = random.Random(seed * 7 + 2020)
        eng = Eng()
        N = 1500 if quick else 20000
        events = []
        desc = {}

        def add(ev, d):
            ev['id'] = len(events)
            desc[ev['id']] = d
            events.append(ev)

        def bad(kind, what, e):
            rep.violation('C20/%s/raises-%s' % (kind, type(e).__name__), '%s raised %r' % (what, e), {'what': what})

        import os
        import time as _time
        old_tz = os.environ.get('TZ')
        for n in range(N):
            # the host's own time zone must not matter: second half of the rounds runs under a non-UTC process zone
            if n == N // 2:
                os.environ['TZ'] = 'XST-5:30'
                _time.tzset()
            # ---- build + components
            y, mo, dd, h, mi, s, us = rand_dt(rng)
            off = rand_off(rng)
            r = out(lambda: eng.ev('datetime($y,$mo,$d,$h,$mi,$s,$us, timespan(minutes => $off))', y=y, mo=mo, d=dd, h=h, mi=mi, s=s, us=us, off=off))
            if isinstance(r, Exception):
                bad('build', 'datetime(%s) offset %d' % ((y, mo, dd, h, mi, s, us), off), r)
                continue
            parts = out(lambda: eng.ev('[$.year,$.month,$.day,$.hour,$.minute,$.second,$.microsecond]', **{'1': r}))
            offres = out(lambda: eng.ev('$.offset', **{'1': r}))
            if isinstance(parts, Exception) or isinstance(offres, Exception):
                bad('build', 'component properties of %r' % r, parts if isinstance(parts, Exception) else offres)
                continue
            add({'act': 'build', 'y': y, 'mo': mo, 'dd': dd, 'h': h, 'mi': mi, 's': s, 'us': us, 'off': off,
                 'res': pdt(r), 'parts': list(parts), 'offres': pts(offres)}, 'datetime%r offset %dmin' % ((y, mo, dd, h, mi, s, us), off))
            d = dtm.datetime(y, mo, dd, h, mi, s, us, tzinfo=mk_tz(rng, off))     # host-supplied aware object, various tz classes
            # ---- timestamp and back
            ts = out(lambda: eng.ev('$.timestamp', **{'1': d}))
            back = out(lambda: eng.ev('datetime($.timestamp, $.offset)', **{'1': d}))
            if isinstance(ts, Exception) or isinstance(back, Exception):
                bad('timestamp', '%r.timestamp / datetime(timestamp, offset)' % d, ts if isinstance(ts, Exception) else back)
            else:
                nus, tol = float_us(ts, 10 ** 6)
                add({'act': 'timestamp', 'd': pdt(d), 'ts': us_triple(nus), 'tol': tol, 'back': pdt(back)}, '%r: timestamp %r back %r' % (d, ts, back))
            # ---- utc
            u = out(lambda: eng.ev('$.utc', **{'1': d}))
            if isinstance(u, Exception):
                bad('utc', '%r.utc' % d, u)
            else:
                add({'act': 'utc', 'd': pdt(d), 'res': pdt(u)}, '%r.utc = %r' % (d, u))
            # ---- datetime(s, o)
            sv = rng.choice([0, 1, -1, 1577869200, 2 ** 31, -2 ** 31, 1e9 + 0.5, 253402300799 - 86400 * 2, -62135596800 + 86400 * 2,
                             rng.uniform(-6e10, 2.5e11), rng.randint(-2 ** 33, 2 ** 35), rng.random() * 1e6])
            off2 = rand_off(rng)
            r2 = out(lambda: eng.ev('datetime($s, timespan(minutes => $off))', s=sv, off=off2))
            if isinstance(r2, Exception):
                bad('fromts', 'datetime(%r, %dmin)' % (sv, off2), r2)
            else:
                rts = out(lambda: eng.ev('$.timestamp', **{'1': r2}))
                if isinstance(rts, Exception):
                    bad('fromts', '%r.timestamp' % r2, rts)
                else:
                    n1, tol1 = float_us(float(sv), 10 ** 6)
                    n2, tol2 = float_us(rts, 10 ** 6)
                    add({'act': 'fromts', 's': us_triple(n1), 'off': off2, 'res': pdt(r2), 'rts': us_triple(n2), 'tol': max(tol1, tol2)},
                        'datetime(%r, %dmin) = %r, .timestamp = %r' % (sv, off2, r2, rts))
            # ---- arithmetic laws
            t = rand_ts(rng)
            if inrange(d, t):
                rs = [out(lambda: eng.ev(x, d=d, t=t)) for x in ('$d + $t', '$t + $d', '($d + $t) - $t', '($d + $t) - $d', '$d - $t')]
                ex = [x for x in rs if isinstance(x, Exception)]
                if ex:
                    bad('arith', 'd=%r t=%r' % (d, t), ex[0])
                else:
                    add({'act': 'arith', 'd': pdt(d), 't': pts(t), 'plus': pdt(rs[0]), 'tplus': pdt(rs[1]), 'back': pdt(rs[2]), 'diff': pts(rs[3]),
                         'minus': pdt(rs[4])}, 'd=%r t=%r -> %r' % (d, t, rs))
            # ---- comparisons by instant (same instant at another offset, near neighbours, random)
            k = rng.random()
            if k < 0.3:
                b = d.astimezone(mk_tz(rng, rand_off(rng)))
            elif k < 0.6:
                b = (d + dtm.timedelta(microseconds=rng.choice([-1, 1, 0]))).astimezone(mk_tz(rng, rand_off(rng)))
            else:
                b = dtm.datetime(*rand_dt(rng), tzinfo=mk_tz(rng, rand_off(rng)))
            rs = [out(lambda: eng.ev(x, a=d, b=b)) for x in ('$a < $b', '$a > $b', '$a <= $b', '$a >= $b', '$a = $b', '$a - $b')]
            ex = [x for x in rs if isinstance(x, Exception)]
            if ex:
                bad('compare', 'a=%r b=%r' % (d, b), ex[0])
            else:
                add({'act': 'compare', 'a': pdt(d), 'b': pdt(b), 'lt': int(rs[0]), 'gt': int(rs[1]), 'le': int(rs[2]), 'ge': int(rs[3]),
                     'eq': int(rs[4]), 'diff': pts(rs[5])}, 'a=%r b=%r -> %r' % (d, b, rs))
            # ---- timespan units
            x = rand_ts(rng)
            us_ = out(lambda: eng.ev('$.microseconds', **{'1': x}))
            rt = out(lambda: eng.ev('timespan(microseconds => $.microseconds)', **{'1': x}))
            units = [out(lambda: eng.ev('$.' + nm, **{'1': x})) for nm in ('days', 'hours', 'minutes', 'seconds', 'milliseconds')]
            neg = out(lambda: eng.ev('-$', **{'1': x}))
            ex = [q for q in [us_, rt, neg] + units if isinstance(q, Exception)]
            if ex:
                bad('units', 'x=%r' % x, ex[0])
            else:
                uu = []
                tol = 1
                for v, unit in zip(units, (86400 * 10 ** 6, 3600 * 10 ** 6, 60 * 10 ** 6, 10 ** 6, 1000)):
                    n_, t_ = float_us(v, unit)
                    uu.append(us_triple(n_))
                    tol = max(tol, t_)
                add({'act': 'units', 'x': pts(x), 'us': us_triple(us_) if isinstance(us_, int) and not isinstance(us_, bool) else ['notint'],
                     'rt': pts(rt), 'units': uu, 'tol': tol, 'neg': pts(neg)}, 'x=%r microseconds=%r units=%r' % (x, us_, units))
            # ---- naive host datetime behaves as the same wall time at UTC
            if n % 4 == 0:
                nv = dtm.datetime(y, mo, dd, h, mi, s, us)
                aw = nv.replace(tzinfo=UTC)
                other = dtm.datetime(*rand_dt(rng), tzinfo=mk_tz(rng, rand_off(rng)))
                exprs = ['$x.timestamp', '$x.utc', '$x.offset', '$x + $t', '$t + $x', '$x - $t', '$x - $o', '$o - $x', '$x < $o', '$x >= $o', '$x = $o',
                         '$x = $x.utc', '$x != $x.utc', '$x.utc = $x', '$x.year', '$x.hour', '$x.date', '$x.time', '$x.weekday', '$x.replace(hour => 1)', 'datetime($x.timestamp, $x.offset)',
                         "$x.format('%Y-%m-%dT%H:%M:%S.%f')", 'isDatetime($x)', '[$x, $o].orderBy($).indexOf($x)', '$x > $o']
                if not inrange(aw, t):
                    t = dtm.timedelta(hours=5, microseconds=7)

                def proj(v):
                    if isinstance(v, Exception):
                        return 'ERR:' + type(v).__name__
                    if isinstance(v, dtm.datetime):
                        return json.dumps(pdt(v))
                    if isinstance(v, dtm.timedelta):
                        return json.dumps(pts(v))
                    return repr(v)
                na = [proj(out(lambda: eng.ev(e_, x=nv, t=t, o=other))) for e_ in exprs]
                aa = [proj(out(lambda: eng.ev(e_, x=aw, t=t, o=other))) for e_ in exprs]
                # one event per function so that a finding names the function
                for e_, p, q in zip(exprs, na, aa):
                    add({'act': 'naive', 'naive': [p], 'aware': [q]}, 'naive %r vs aware: %s -> %s vs %s' % (nv, e_, p, q))
                    desc[len(events) - 1] = ('naive', e_, 'naive %r: %s gives %s, same wall time at UTC gives %s' % (nv, e_, p, q))
        if old_tz is None:
            os.environ.pop('TZ', None)
        else:
            os.environ['TZ'] = old_tz
        _time.tzset()
        # ---- M
        r = tlc.ok(tlc.run('Trace_DateTime', 'SPECIFICATION TraceSpec\nINVARIANT Laws\nCHECK_DEADLOCK FALSE\n', wd, workers=1,
                           env={'TRACE_FILE': _one_event(wd)}))
        rep.tlc('DateTime/M AlgebraLaws', r)
        rej = trace.validate(rep, wd, 'Trace_DateTime', events, 'Trace_DateTime/V')
        for eid, clause in rej:
            d_ = desc[eid]
            if isinstance(d_, tuple):
                rep.violation('C20/naive-is-utc/%s' % d_[1], d_[2], {'expr': d_[1]})
            else:
                rep.violation('C20/%s/%s' % (events[eid]['act'], clause), '%s: clause %s' % (d_, clause), {'event': events[eid]})
        rep.traces += len(events)
        rep.evaluations += len(events)
        rep.nontrivial = len([e for e in events if e['act'] != 'naive'])
        for k in (0, 1, 3, 5):
            rep.sample({'event': events[k], 'what': str(desc[k])[:200]})
        rep.rule = ('%d rounds; each: datetime from random/boundary parts (years 2..9998, us resolution, offsets -1439..1439 min), host '
                    'aware objects of three tz classes, timestamps over the whole range, timespans of either sign; every 4th round a naive '
                    'host datetime through 23 functions. distinct_nontrivial = events other than naive comparisons.' % N)
        rep.assumptions = ['projection to (days, seconds, us, offset) uses CPython aware-datetime subtraction',
                           'float tolerance: 2 ulp of the float quantity, at least 1 us (computed by the harness with math.ulp)']
    finally:
        if not keep:
            tlc.cleanup(wd)


def _one_event(wd):
    p = wd + '/one.ndjson'
    with open(p, 'w') as f:
        f.write(json.dumps({'id': 0, 'act': 'naive', 'naive': ['x'], 'aware': ['x']}) + '\n')
    return p


def replay(path):
    doc = json.load(open(path))
    print(doc['desc'])
    return 1
