"""C10 - data round-trips and every result is finalised into plain data.

M  Convert.tla / MC_Convert: whatever Finalize returns is Plain (PlainOut); the only obstacles are unhashable converted
   keys / set elements (OnlyHashObstacles).
G  every value-kind tree up to the depth bound x the 4 option combinations with the finalised tree the model demands
   (or the reason no plain representation exists) is built as real Python/yaql objects and handed to the real '#finalize';
   the result's type census is compared.  JSON-like documents additionally go through `$` with input conversion.
"""
import itertools
import json
import random

from vf import tlc, tlaval

SCAL = {'1': 1, 'a': 'a', 'null': None, 'k': 'k'}


def build(t, uniq=None):
    """model tree -> real object (fresh iterators each call)"""
    from yaql.language import utils
    from yaql.standard_library import queries
    k = str(t['k'])
    if k == 'scalar':
        return SCAL[str(t['v'])]
    ch = list(t['ch'])
    if k in ('dict', 'frozendict', 'keysview', 'valuesview', 'itemsview'):
        pairs = []
        for i, (kk, vv) in enumerate(ch):
            key = build(kk)
            if str(kk['k']) == 'scalar' and str(kk['v']) == 'k':
                key = 'k%d' % i
            pairs.append((key, build(vv)))
        if k == 'dict':
            return dict(pairs)
        fd = utils.FrozenDict(pairs)
        return {'frozendict': fd, 'keysview': fd.keys(), 'valuesview': fd.values(), 'itemsview': fd.items()}[k] if k != 'frozendict' else fd
    items = [build(c) for c in ch]
    if k == 'list':
        return items
    if k == 'tuple':
        return tuple(items)
    if k == 'set':
        return set(items)
    if k == 'frozenset':
        return frozenset(items)
    if k == 'generator':
        return (x for x in items)
    if k == 'mapobj':
        return map(lambda x: x, items)
    if k == 'ordering':
        o = queries.OrderingIterable(items, lambda a, b: a < b, lambda a, b: a > b)
        o.append_field(lambda x: 0, True)
        return o
    raise ValueError(k)


def census(v):
    """real finalised value -> comparable tree"""
    if isinstance(v, dict) and type(v) is dict:
        return ('dict', frozenset((census(k), census(x)) for k, x in v.items()))
    if type(v) is list:
        return ('list', tuple(census(x) for x in v))
    if type(v) is tuple:
        return ('tuple', tuple(census(x) for x in v))
    if type(v) is set:
        return ('set', frozenset(census(x) for x in v))
    if v is None or isinstance(v, (bool, int, float, str)):
        return ('scalar', repr(v))
    return ('NOTPLAIN', type(v).__name__)


def mcensus(t):
    k = str(t['k'])
    if k == 'scalar':
        return ('scalar', repr(SCAL[str(t['v'])]))
    if k == 'dict':
        return ('dict', frozenset((mcensus(p[0]), mcensus(p[1])) for p in t['ch']))
    if k == 'set':
        return ('set', frozenset(mcensus(c) for c in t['ch']))
    if k == 'ulist':
        return ('ulist', tuple(sorted((mcensus(c) for c in t['ch']), key=repr)))
    return (k, tuple(mcensus(c) for c in t['ch']))


def same(real, model):
    """real census vs model census; a model 'ulist' (list made from a set) matches a real list in any order"""
    if model[0] == 'ulist':
        if real[0] != 'list' or len(real[1]) != len(model[1]):
            return False
        rest = list(real[1])
        for m in model[1]:
            for i, r in enumerate(rest):
                if same(r, m):
                    del rest[i]
                    break
            else:
                return False
        return True
    if real[0] != model[0]:
        return False
    if model[0] in ('scalar',):
        return real == model
    if model[0] == 'dict':
        rp, mp = list(real[1]), list(model[1])
        if len(rp) != len(mp):
            return False
        for mk, mv in mp:
            for i, (rk, rv) in enumerate(rp):
                if same(rk, mk) and same(rv, mv):
                    del rp[i]
                    break
            else:
                return False
        return True
    if model[0] == 'set':
        rp = list(real[1])
        if len(rp) != len(model[1]):
            return False
        for m in model[1]:
            for i, r in enumerate(rp):
                if same(r, m):
                    del rp[i]
                    break
            else:
                return False
        return True
    return len(real[1]) == len(model[1]) and all(same(r, m) for r, m in zip(real[1], model[1]))


def has_notplain(c):
    if c[0] == 'NOTPLAIN':
        return c[1]
    if c[0] == 'scalar':
        return None
    for x in c[1]:
        if isinstance(x, tuple) and len(x) == 2 and isinstance(x[0], tuple) and c[0] == 'dict':
            for y in x:
                r = has_notplain(y)
                if r:
                    return r
        else:
            r = has_notplain(x)
            if r:
                return r
    return None


def short(t):
    k = str(t['k'])
    if k == 'scalar':
        return str(t['v'])
    if k in ('dict', 'frozendict', 'keysview', 'valuesview', 'itemsview'):
        return '%s{%s}' % (k, ', '.join('%s: %s' % (short(p[0]), short(p[1])) for p in t['ch']))
    return '%s(%s)' % (k, ', '.join(short(c) for c in t['ch']))


class Engines(object):
    def __init__(self):
        import yaql
        self.e = {}
        for t2l in (True, False):
            for s2l in (True, False):
                for conv in (True, False):
                    self.e[(t2l, s2l, conv)] = yaql.YaqlFactory().create(options={
                        'yaql.convertTuplesToLists': t2l, 'yaql.convertSetsToLists': s2l, 'yaql.convertInputData': conv})
        self.st = {k: e('$') for k, e in self.e.items()}
        import yaql as y
        self.ctx = y.create_context()

        # other shapes of context a host may evaluate `$` through: a default document (or a host variable `$`) lies behind the
        # document of the call
        from yaql.language import contexts
        D = {'name': 'default', 'items': [1, 2]}
        std_d = y.create_context(data=D)
        host = contexts.Context()
        host['$'] = 'host-$'
        host['appName'] = 'demo'
        self.shapes = [
            ('a MultiContext [child of a standard context made with a default document, host context]',
             lambda: contexts.MultiContext([std_d.create_child_context(), contexts.Context()])),
            ('a MultiContext [fresh context, host context with its own $] whose parents hold the standard library',
             lambda: contexts.MultiContext([self.ctx.create_child_context(), host.create_child_context()])),
            ('a child of a MultiContext [standard context with a default document, host context with its own $]',
             lambda: contexts.MultiContext([std_d, host]).create_child_context()),
            ('a LinkedContext(parent=standard context with a default document, linked=host context with its own $)',
             lambda: contexts.LinkedContext(std_d.create_child_context(), host)),
        ]

    def finalize(self, obj, t2l, s2l, conv=False, ctx=None):
        return self.st[(t2l, s2l, conv)].evaluate(data=obj, context=ctx if ctx is not None else self.ctx.create_child_context())


JSONLIKE = {'scalar', 'list', 'dict', 'tuple', 'set', 'generator'}


def jsonlike(t):
    k = str(t['k'])
    if k not in JSONLIKE:
        return False
    if k == 'scalar':
        return True
    if k == 'dict':
        return all(str(p[0]['k']) == 'scalar' and jsonlike(p[1]) for p in t['ch'])
    if k == 'set':
        return all(str(c['k']) == 'scalar' for c in t['ch'])
    return all(jsonlike(c) for c in t['ch'])


def run(rep, tier, seed, keep=False):
    quick = tier == 'quick'
    wd = tlc.workdir('c10')
    try:
        depth = 2 if quick else 3
        cfg = ('SPECIFICATION Spec\nCONSTANTS\n Depth = %d\n Mode = "kinds"\n Ns = {0}\nINVARIANT PlainOut\nINVARIANT OnlyHashObstacles\n' % depth)
        dump = wd + '/g'
        r = tlc.ok(tlc.run('MC_Convert', cfg, wd, workers=16, dump=dump, timeout=3000))
        rep.tlc('Convert/G+M value-kind trees depth <= %d x 4 option combinations' % depth, r)
        eng = Engines()
        n = 0
        nontriv = 0
        unrep = {}
        for st in tlaval.parse_dump(dump + '.dump'):
            t, t2l, s2l, out = st['tree'], bool(st['t2l']), bool(st['s2l']), st['out']
            n += 1
            case = {'tree': short(t), 't2l': t2l, 's2l': s2l}
            try:
                got = ('ok', census(eng.finalize(build(t), t2l, s2l)))
            except Exception as e:  # noqa
                got = ('raises', type(e).__name__ + ': ' + str(e)[:60])
            rep.evaluations += 1
            if out['ok']:
                want = mcensus(out['t'])
                if not (got[0] == 'ok' and same(got[1], want)):
                    np_ = has_notplain(got[1]) if got[0] == 'ok' else None
                    rep.violation('C10/finalize/%s' % ('not-plain:' + np_ if np_ else ('raises' if got[0] == 'raises' else 'wrong-shape')),
                                  'finalising %s with convertTuplesToLists=%s convertSetsToLists=%s: real %r, model %r' % (short(t), t2l, s2l, got, want), case)
            else:
                why = str(out['why'])
                unrep[why] = unrep.get(why, 0) + 1
                # the statement says finalisation succeeds: no plain representation exists -> finding keyed by the reason
                if got[0] == 'ok' and not has_notplain(got[1]):
                    rep.note('model says unrepresentable (%s) but real returned plain %r for %s' % (why, got[1], short(t)))
                else:
                    rep.violation('C10/unrepresentable/%s' % why.split(':')[0],
                                  'finalising %s (t2l=%s, s2l=%s) has no plain representation: %s; real: %r' % (short(t), t2l, s2l, why, got), case)
            if str(t['k']) != 'scalar' and any(str(c['k'] if not isinstance(c, tuple) else c[1]['k']) != 'scalar' for c in t['ch']):
                nontriv += 1
            # P1: JSON-like documents through `$` with input conversion: same canonical result as the model's ConvertIn;Finalize
            if jsonlike(t) and st['rt']['ok']:
                try:
                    got2 = ('ok', census(eng.finalize(build(t), t2l, s2l, conv=True)))
                except Exception as e:  # noqa
                    got2 = ('raises', type(e).__name__)
                want = mcensus(st['rt']['t'])
                rep.evaluations += 1
                if not (got2[0] == 'ok' and same(got2[1], want)):
                    rep.violation('C10/roundtrip', '`$` on host document %s (t2l=%s, s2l=%s): real %r, canonical %r' % (short(t), t2l, s2l, got2, want), case)
                for shape, mk in eng.shapes + [('yaql.create_context(data=document), evaluated without a data argument', None)]:
                    try:
                        if mk is None:
                            import yaql as _y
                            from yaql.language import utils as _u
                            got3 = ('ok', census(eng.st[(t2l, s2l, True)].evaluate(data=_u.NO_VALUE, context=_y.create_context(data=build(t)))))
                        else:
                            got3 = ('ok', census(eng.finalize(build(t), t2l, s2l, conv=True, ctx=mk())))
                    except Exception as e:  # noqa
                        got3 = ('raises', type(e).__name__)
                    rep.evaluations += 1
                    if not (got3[0] == 'ok' and same(got3[1], want)):
                        rep.violation('C10/roundtrip/other-context-shape', '`$` on host document %s (t2l=%s, s2l=%s) evaluated through %s: real %r, canonical %r' % (
                            short(t), t2l, s2l, shape, got3, want), case)
            if n % 1501 == 1:
                rep.sample({'tree': short(t), 't2l': t2l, 's2l': s2l, 'model': 'ok ' + repr(mcensus(out['t'])) if out['ok'] else str(out['why'])})
        rep.traces += n
        rep.nontrivial = nontriv
        rep.exhaustive = True
        rep.extra['trees_x_options'] = n
        rep.extra['unrepresentable_by_reason'] = unrep
        # ---- expression-produced kinds (the library really returns these objects)
        import yaql
        exprs = ['{a=>1}.keys()', '{a=>1}.values()', '{a=>1}.items()', '[3,1,2].orderBy($)', '[1,2].where($>1)', '[1,2].select([$])', '[1,[2]].toSet()' if False else '[1,2].toSet()',
                 'set(1,2)', '[{a=>1}].select($.items())', '{a=>[1,2].select($)}', '[[1,2].toSet()]', '{a=>{b=>1}.keys()}', 'dict(a=>1).set(b, [1].select($))',
                 '[1,2].zip([3,4])', '[1,2,3].groupBy($ mod 2)', '[1,2].select($).memorize()', 'range(3)', '[1,2].enumerate()', "'a b'.split(' ')",
                 '[1,2].toList().reverse()', '{a=>1, b=>2}.items().toDict($[0], $[1])', '[[1,2],[3]].selectMany($)', 'let(x=>[1,2].select($)) -> [$x]',
                 '[1,2].splitWhere($=1)', '[1,2,3].slice(2)', '[1,2].toSet().union([3].toSet())', "regex('a').searchAll('aa')", '[1,2].orderBy($).thenByDescending(-$)']
        ne = 0
        from yaql.language import contexts as _ctxs0
        from yaql.language import conventions as _conv0
        own_root = yaql.create_context(context=_ctxs0.Context(convention=_conv0.CamelCaseConvention()))       # the host supplies the root context object itself
        for t2l, s2l in itertools.product((True, False), (True, False)):
            opts = {'yaql.convertTuplesToLists': t2l, 'yaql.convertSetsToLists': s2l}
            # an engine whose own options say the opposite: copy(options) / engine(text, options) must follow the caller's
            base = yaql.YaqlFactory().create(options={'yaql.convertTuplesToLists': not t2l, 'yaql.convertSetsToLists': not s2l,
                                                      'yaql.convertInputData': True, 'yaql.convertOutputData': True})
            copied = base.copy(opts)
            # one options dict handed to several factories (a legacy-syntax engine first): every engine follows what the host asked
            # for, and the host's dict is still what the host wrote
            shared_opts = dict(opts)
            from yaql import legacy as _legacy
            try:
                _legacy.YaqlFactory().create(shared_opts)
            except Exception:
                pass
            after_legacy = yaql.YaqlFactory().create(options=shared_opts)
            if shared_opts != opts:
                rep.note('the options dict %r handed to a legacy factory came back as %r' % (opts, shared_opts))
            configs = [('engine created with the options', lambda x: eng.e[(t2l, s2l, True)](x), eng.ctx),
                       ('engine created from an options dict that a legacy factory had been given before', lambda x: after_legacy(x), eng.ctx),
                       ('engine.copy(options) of an engine with the opposite options', lambda x: copied(x), eng.ctx),
                       ('engine(text, options) on an engine with the opposite options', lambda x: base(x, opts), eng.ctx),
                       ('context built on a root context object supplied by the host', lambda x: eng.e[(t2l, s2l, True)](x), own_root)]
            for how, parse, cx0 in configs:
                for x in (exprs if how.startswith('engine created') else exprs[:16]):
                    try:
                        v = parse(x).evaluate(context=cx0.create_child_context())
                    except Exception as ex:  # noqa
                        rep.violation('C10/expression/raises', '%s (t2l=%s, s2l=%s; %s) raises %s: %s' % (x, t2l, s2l, how, type(ex).__name__, str(ex)[:80]), {'expr': x})
                        continue
                    ne += 1
                    rep.evaluations += 1
                    np_ = has_notplain(census(v))
                    c = census(v)
                    bad = np_ or (t2l and 'tuple' in repr(c)) or (s2l and "('set'" in repr(c))
                    if bad:
                        rep.violation('C10/expression/not-plain', '%s (t2l=%s, s2l=%s; %s) returns %r' % (x, t2l, s2l, how, c), {'expr': x})
        rep.extra['expression_results_checked'] = ne
        # ---- one parsed statement reused across contexts: a hand-assembled context without '#finalize' first, then a prepared one
        from yaql.language import contexts as _ctxs
        from yaql.standard_library import collections as _c, queries as _q, system as _sy, common as _cm, math as _m
        nreuse = 0
        for t2l, s2l in itertools.product((True, False), (True, False)):
            e = eng.e[(t2l, s2l, True)]
            for x in exprs[:14]:
                for order in ('bare-first', 'prepared-first'):
                    st = e(x)
                    bare = _ctxs.Context()
                    for _mod in (_sy, _cm, _m, _c, _q):
                        try:
                            _mod.register(bare)
                        except TypeError:
                            _mod.register(bare, False)
                    seq = [bare, eng.ctx.create_child_context()] if order == 'bare-first' else [eng.ctx.create_child_context(), bare, eng.ctx.create_child_context()]
                    for cx in seq:
                        try:
                            v = st.evaluate(context=cx)
                        except Exception as ex:  # noqa
                            if cx is not bare:
                                rep.violation('C10/statement-reuse/raises', '%s reused (%s, t2l=%s, s2l=%s) raises %s on a prepared context' % (x, order, t2l, s2l, type(ex).__name__), {'expr': x})
                            continue
                        if cx is bare:
                            continue           # no finaliser was provided there: nothing is promised
                        nreuse += 1
                        cc = census(v)
                        if has_notplain(cc) or (t2l and "('tuple'" in repr(cc)) or (s2l and "('set'" in repr(cc)):
                            rep.violation('C10/statement-reuse/not-plain', '%s reused (%s, t2l=%s, s2l=%s) returns %r on a prepared context' % (x, order, t2l, s2l, cc), {'expr': x})
        rep.extra['statement_reuse_results_checked'] = nreuse
        # ---- the Python-side interface (yaql_interface.YaqlInterface): function results are finalised the same way
        from yaql import yaql_interface
        calls = [({'a': 1, 'b': [1, 2]}, 'keys', ()), ({'a': 1}, 'items', ()), ({'a': [1]}, 'values', ()), ([1, 2, 2], 'toSet', ()), ([1, [2, [3]]], 'flatten', ()),
                 ([1, 1, 2], 'distinct', ()), ([3, 1], 'toList', ()), ([1, 2, 3], 'skip', (1,)), ([1, 2], 'enumerate', ()), ([[1, 2], [3, 4]], 'toDict', None),
                 ([1, 2], 'reverse', ()), ({'a': {'b': 1}}, 'get', ('a',)), ([1, 2, 3], 'slice', (2,)), ([1, 2], 'zip', ([3, 4],)), ((1, 2), 'toSet', ())]
        ni = 0
        for t2l, s2l in itertools.product((True, False), (True, False)):
            e = eng.e[(t2l, s2l, True)]
            yi = yaql_interface.YaqlInterface(eng.ctx.create_child_context(), e)
            for recv, fn, args in calls:
                if args is None:
                    continue
                try:
                    v = getattr(yi.on(recv), fn)(*args)
                    c = census(v)
                except Exception as ex:  # noqa
                    rep.violation('C10/interface/raises', 'YaqlInterface.on(%r).%s%r (t2l=%s, s2l=%s) raises %s' % (recv, fn, args, t2l, s2l, type(ex).__name__), {'fn': fn})
                    continue
                ni += 1
                rep.evaluations += 1
                if has_notplain(c) or (t2l and "('tuple'" in repr(c)) or (s2l and "('set'" in repr(c)):
                    rep.violation('C10/interface/not-plain', 'YaqlInterface.on(%r).%s%r (t2l=%s, s2l=%s) returns %r' % (recv, fn, args, t2l, s2l, c), {'fn': fn})
            for x in exprs[:12]:
                try:
                    c = census(yi(x))
                except Exception as ex:  # noqa
                    rep.violation('C10/interface/raises', 'YaqlInterface(%r) raises %s' % (x, type(ex).__name__), {'expr': x})
                    continue
                ni += 1
                if has_notplain(c) or (t2l and "('tuple'" in repr(c)) or (s2l and "('set'" in repr(c)):
                    rep.violation('C10/interface/not-plain', 'YaqlInterface(%r) (t2l=%s, s2l=%s) returns %r' % (x, t2l, s2l, c), {'expr': x})
        rep.extra['interface_results_checked'] = ni
        rep.rule = ('all value-kind trees of depth <= %d over 13 kinds (list-likes with <= 2 children, mapping-likes with <= 1 pair, sets/keys only '
                    'where the Python object can exist) x 4 option combinations; JSON-like ones also through `$` with input conversion; %d '
                    'library expressions x 4 options. Non-trivial = container holding a container.' % (depth, len(exprs)))
        rep.assumptions = ['object construction from the tree (build) and the type census are trusted']
    finally:
        if not keep:
            tlc.cleanup(wd)


def replay(path):
    doc = json.load(open(path))
    print(doc['desc'])
    return 1
