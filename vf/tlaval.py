"""Parser for TLA+ values as TLC prints them (dumps, PrintT, error traces).

tuples  <<a, b>>      -> tuple
sets    {a, b}        -> frozenset (elements must be hashable after conversion)
records [a |-> 1]     -> dict (str keys)
funcs   (k :> v @@ ..)-> dict (converted keys)
strings "abc"         -> str
ints, TRUE/FALSE, model values (bare identifiers -> ModelValue str subclass)
"""
import re


class ModelValue(str):
    pass


class FrozenDict(dict):
    def __hash__(self):
        return hash(frozenset(self.items()))


_tok = re.compile(r'''\s*(<<|>>|\|->|:>|@@|\[|\]|\{|\}|\(|\)|,|"(?:[^"\\]|\\.)*"|-?\d+|[A-Za-z_][A-Za-z0-9_!]*)''')


def tokenize(s):
    pos = 0
    out = []
    n = len(s)
    while pos < n:
        m = _tok.match(s, pos)
        if not m:
            if s[pos:].strip() == '':
                break
            raise ValueError('bad TLA value at %d: %r' % (pos, s[pos:pos + 40]))
        out.append(m.group(1))
        pos = m.end()
    return out


def _unescape(t):
    body = t[1:-1]
    return re.sub(r'\\(.)', lambda m: {'n': '\n', 't': '\t'}.get(m.group(1), m.group(1)), body)


class _P:
    def __init__(self, toks):
        self.t = toks
        self.i = 0

    def peek(self):
        return self.t[self.i] if self.i < len(self.t) else None

    def next(self):
        v = self.t[self.i]
        self.i += 1
        return v

    def expect(self, x):
        v = self.next()
        if v != x:
            raise ValueError('expected %s got %s at %d' % (x, v, self.i))

    def value(self):
        t = self.next()
        if t == '<<':
            items = []
            if self.peek() == '>>':
                self.next()
                return tuple(items)
            while True:
                items.append(self.value())
                t2 = self.next()
                if t2 == '>>':
                    return tuple(items)
                if t2 != ',':
                    raise ValueError('tuple sep %r' % t2)
        if t == '{':
            items = []
            if self.peek() == '}':
                self.next()
                return frozenset()
            while True:
                items.append(self.value())
                t2 = self.next()
                if t2 == '}':
                    return frozenset(items)
                if t2 != ',':
                    raise ValueError('set sep %r' % t2)
        if t == '[':
            d = FrozenDict()
            if self.peek() == ']':
                self.next()
                return d
            while True:
                k = self.next()
                self.expect('|->')
                dict.__setitem__(d, k, self.value())
                t2 = self.next()
                if t2 == ']':
                    return d
                if t2 != ',':
                    raise ValueError('record sep %r' % t2)
        if t == '(':
            d = FrozenDict()
            while True:
                k = self.value()
                self.expect(':>')
                dict.__setitem__(d, k, self.value())
                t2 = self.next()
                if t2 == ')':
                    return d
                if t2 != '@@':
                    raise ValueError('func sep %r' % t2)
        if t[0] == '"':
            return _unescape(t)
        if t == 'TRUE':
            return True
        if t == 'FALSE':
            return False
        if re.match(r'-?\d+$', t):
            return int(t)
        return ModelValue(t)


def parse(s):
    p = _P(tokenize(s))
    v = p.value()
    if p.i != len(p.t):
        raise ValueError('trailing tokens: %r' % p.t[p.i:p.i + 5])
    return v


def parse_dump(path):
    """Yield dict var->value for every state of a `tlc -dump file` output."""
    cur = []
    with open(path) as f:
        for line in f:
            if line.startswith('State '):
                if cur:
                    yield _state(cur)
                cur = []
            elif line.strip():
                cur.append(line.rstrip('\n'))
    if cur:
        yield _state(cur)


def _state(lines):
    txt = '\n'.join(lines)
    parts = re.split(r'(?:^|\n)/\\ ', txt)
    st = {}
    for p in parts:
        p = p.strip()
        if not p:
            continue
        m = re.match(r'([A-Za-z_][A-Za-z0-9_]*)\s*=\s*(.*)$', p, re.S)
        if not m:
            raise ValueError('bad state conjunct %r' % p[:80])
        st[m.group(1)] = parse(m.group(2))
    return st


def to_tla(v):
    """Python value -> TLA+ expression text (for generated MC modules)."""
    if isinstance(v, bool):
        return 'TRUE' if v else 'FALSE'
    if isinstance(v, int):
        return str(v)
    if isinstance(v, ModelValue):
        return str(v)
    if isinstance(v, str):
        return '"' + v.replace('\\', '\\\\').replace('"', '\\"') + '"'
    if isinstance(v, (tuple, list)):
        return '<<' + ', '.join(to_tla(x) for x in v) + '>>'
    if isinstance(v, (set, frozenset)):
        return '{' + ', '.join(sorted(to_tla(x) for x in v)) + '}'
    if isinstance(v, dict):
        if not v:
            return '<<>>'
        if all(isinstance(k, str) and re.match(r'[A-Za-z_]\w*$', k) for k in v):
            return '[' + ', '.join('%s |-> %s' % (k, to_tla(x)) for k, x in v.items()) + ']'
        return '(' + ' @@ '.join('%s :> %s' % (to_tla(k), to_tla(x)) for k, x in v.items()) + ')'
    raise TypeError(type(v))
