"""Evidence files (/verif/evidence/<id>.json) and verdict bookkeeping."""
import hashlib
import json
import os
import time

VERIF = os.path.dirname(os.path.dirname(os.path.abspath(__file__)))


class Report(object):
    """Collects what one check run covered and its verdicts."""

    def __init__(self, pid, tier, seed):
        self.pid = pid
        self.tier = tier
        self.seed = seed
        self.t0 = time.time()
        self.states = 0
        self.transitions = 0
        self.traces = 0
        self.evaluations = 0
        self.nontrivial = 0
        self.samples = []
        self.rule = ''
        self.assumptions = []
        self.extra = {}
        self.violations = []      # (key, description, replay dict)
        self.known = []           # (key, description)
        self.notes = []           # model-fidelity notes
        self.tlc_jobs = []
        self.exhaustive = False

    def tlc(self, name, r):
        self.states += r.distinct
        self.transitions += r.generated
        self.tlc_jobs.append({'job': name, 'generated': r.generated, 'distinct': r.distinct,
                              'wall_s': round(r.wall, 2)})

    def sample(self, s, limit=6):
        if len(self.samples) < limit:
            self.samples.append(s)

    def note(self, msg):
        if len(self.notes) < 50:
            self.notes.append(msg)

    def violation(self, key, desc, replay):
        self.violations.append((key, desc, replay))

    def finish(self, findings):
        """Write evidence, print verdict lines, return exit code."""
        rc = 0
        reported = 0
        seen_known = {}
        new = []
        for key, desc, replay in self.violations:
            f = findings.match(self.pid, key)
            if f is not None:
                seen_known.setdefault(f['key'], (f, desc))
            else:
                new.append((key, desc, replay))
        for k, (f, desc) in sorted(seen_known.items()):
            print('KNOWN-FINDING: property=%s %s [%s]' % (self.pid, f['what'], k))
        rdir = os.path.join(VERIF, 'replays', self.pid)
        seen_keys = set()
        for key, desc, replay in new:
            if key in seen_keys and reported >= 1:
                continue
            seen_keys.add(key)
            if reported >= int(os.environ.get('VF_MAXV', '10')):
                break
            os.makedirs(rdir, exist_ok=True)
            blob = json.dumps({'property': self.pid, 'key': key, 'desc': desc, 'tier': self.tier,
                               'seed': self.seed, 'case': replay}, sort_keys=True, default=repr)
            path = os.path.join(rdir, hashlib.sha1(blob.encode()).hexdigest()[:12] + '.json')
            with open(path, 'w') as fh:
                fh.write(blob)
            print('VIOLATION property=%s replay=%s' % (self.pid, path))
            print('  key=%s %s' % (key, desc[:500]))
            reported += 1
            rc = 1
        for n in self.notes[:20]:
            print('NOTE %s' % n)
        cov = {
            'states': max(self.states, 0),
            'transitions': max(self.transitions, 0),
            'traces_validated_against_impl': self.traces,
            'evaluations': self.evaluations,
            'distinct_nontrivial': self.nontrivial,
            'rule': self.rule,
            'samples': self.samples or ['<none>'],
            'exhaustive': self.exhaustive,
            'tlc_jobs': self.tlc_jobs,
            'model_divergence_notes': len(self.notes),
            'known_findings_seen': sorted(seen_known),
        }
        cov.update(self.extra)
        ev = {
            'property_id': self.pid, 'tier': self.tier, 'seed': int(self.seed), 'level': 'model_checking',
            'coverage': cov, 'assumptions': self.assumptions,
            'wall_s': round(time.time() - self.t0, 2), 'violations': len(new),
        }
        os.makedirs(os.path.join(VERIF, 'evidence'), exist_ok=True)
        with open(os.path.join(VERIF, 'evidence', self.pid + '.json'), 'w') as fh:
            json.dump(ev, fh, indent=1, sort_keys=True, default=repr)
        print('%s %s: %s  (states=%d transitions=%d traces=%d evaluations=%d wall=%.1fs)' % (
            self.pid, self.tier, 'FAIL' if rc else 'ok', self.states, self.transitions, self.traces,
            self.evaluations, time.time() - self.t0))
        return rc
