"""Write-event recorder for C09/C18: wraps context mutators and __setattr__ of shared objects at class level."""
import threading

from vf import sched


class Recorder(object):
    def __init__(self):
        self.lock = threading.Lock()
        self.events = []
        self.tls = threading.local()
        self.ids = {}
        self.keep = []
        self.tr = 0
        self.seq = 0
        self.patch = sched.Patch()
        self.active = False
        self.truncated = set()

    def oid(self, obj):
        k = id(obj)
        if k not in self.ids:
            self.ids[k] = len(self.ids) + 1
            self.keep.append(obj)        # keep alive: ids must not be reused within a run
        return self.ids[k]

    def cur(self):
        return getattr(self.tls, 'e', 0)

    CAP = 600      # events kept per trace; a longer trace is truncated (never thinned: a missing "new" would look like a host write)

    def emit(self, ev):
        with self.lock:
            if self.seq >= self.CAP:
                self.truncated.add(self.tr)
                return
            ev['tr'] = self.tr
            ev['seq'] = self.seq
            self.seq += 1
            self.events.append(ev)

    def new_trace(self):
        with self.lock:
            self.tr += 1
            self.seq = 0

    def begin(self, e, ctx):
        self.tls.e = e
        self.emit({'ev': 'begin', 'e': e, 'handed': self.oid(ctx), 'obj': 0, 'kind': '', 'name': ''})

    def end(self, e):
        self.emit({'ev': 'end', 'e': e, 'handed': 0, 'obj': 0, 'kind': '', 'name': ''})
        self.tls.e = 0

    def install(self):
        from yaql.language import contexts, expressions, specs, utils
        rec = self

        def wrap_init(orig):
            def w(self, *a, **k):
                e = rec.cur()
                if e:      # announced before the constructor runs: its own attribute writes belong to the new object
                    rec.emit({'ev': 'new', 'e': e, 'obj': rec.oid(self), 'handed': 0, 'kind': '', 'name': ''})
                orig(self, *a, **k)
            return w

        def wrap_mut(kind, namer):
            def maker(orig):
                def w(self, *a, **k):
                    r = orig(self, *a, **k)
                    rec.emit({'ev': 'write', 'e': rec.cur(), 'obj': rec.oid(self), 'kind': kind, 'name': namer(a, k), 'handed': 0})
                    return r
                return w
            return maker
        p = self.patch
        p.wrap(contexts.Context, '__init__', wrap_init)
        p.wrap(contexts.Context, '__setitem__', wrap_mut('ctx-set', lambda a, k: str(a[0])))
        p.wrap(contexts.Context, '__delitem__', wrap_mut('ctx-del', lambda a, k: str(a[0])))
        p.wrap(contexts.Context, 'register_function', wrap_mut('ctx-register', lambda a, k: str(k.get('name') or getattr(a[0], 'name', None) or getattr(a[0], '__name__', '?'))))
        p.wrap(contexts.Context, 'delete_function', wrap_mut('ctx-delete-function', lambda a, k: str(getattr(a[0], 'name', '?'))))

        def trap(cls):
            orig = cls.__setattr__

            def w(self, name, value):
                e = rec.cur()
                if e:
                    rec.emit({'ev': 'write', 'e': e, 'obj': rec.oid(self), 'kind': 'setattr:' + cls.__name__, 'name': str(name), 'handed': 0})
                return orig(self, name, value)
            p.saved.append((cls, '__setattr__', orig))
            cls.__setattr__ = w
        for cls in (expressions.Expression, specs.FunctionDefinition, specs.ParameterDefinition, utils.FrozenDict):
            trap(cls)
        # objects of these classes created by the evaluation itself are its own
        for cls in (specs.FunctionDefinition, specs.ParameterDefinition, utils.FrozenDict, expressions.Function, expressions.Constant):
            p.wrap(cls, '__init__', wrap_init)
        self.active = True

    def uninstall(self):
        self.patch.__exit__()
        self.active = False
