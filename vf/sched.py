"""Deterministic thread scheduler: threads run one at a time and hand over only at gates,
in the order given by a schedule (a list of thread ids produced by TLC)."""
import threading


class Deadlock(Exception):
    pass


class Scheduler(object):
    def __init__(self, schedule, timeout=10.0):
        self.schedule = list(schedule)
        self.idx = 0
        self.cv = threading.Condition()
        self.running = None
        self.waiting = set()
        self.finished = set()
        self.started = set()
        self.tls = threading.local()
        self.timeout = timeout
        self.followed = []        # the order actually taken
        self.deviations = 0       # schedule entries skipped because the thread had already finished
        self.expected = set(schedule)
        self.free = False         # set once the schedule turned out not to be realisable (a thread blocked outside a gate,
        self.infeasible = False   # e.g. on a lock held by a parked thread): the gates then let everybody through

    # -- called from worker threads
    def _turn(self, p):
        if self.running is not None:
            return False
        # drop schedule entries of threads that are finished
        while self.idx < len(self.schedule) and self.schedule[self.idx] in self.finished:
            self.idx += 1
            self.deviations += 1
        if self.idx < len(self.schedule):
            return self.schedule[self.idx] == p
        # schedule exhausted: remaining threads proceed in id order, still one at a time
        return p == min(self.waiting)

    def gate(self):
        p = getattr(self.tls, 'p', None)
        if p is None or self.free:
            return
        with self.cv:
            if self.running == p:
                self.running = None
            self.waiting.add(p)
            self.cv.notify_all()
            while not self._turn(p):
                if self.free:
                    self.waiting.discard(p)
                    return
                if not self.cv.wait(self.timeout):
                    if getattr(self, 'release_on_stall', False):
                        # the thread whose turn it is does not arrive at a gate: it is blocked on something a parked thread
                        # holds (a lock) - this interleaving cannot happen; let the threads finish in whatever order they can
                        self.infeasible = True
                        self.free = True
                        self.waiting.discard(p)
                        self.cv.notify_all()
                        return
                    raise Deadlock('thread %s waited too long (idx=%d, waiting=%s)' % (p, self.idx, sorted(self.waiting)))
            self.waiting.discard(p)
            if self.idx < len(self.schedule):
                self.idx += 1
            self.running = p
            self.followed.append(p)

    def run(self, bodies):
        """bodies: dict thread id -> callable. Returns dict id -> ('ok', value) | ('exc', exception)."""
        results = {}

        def worker(p, fn):
            self.tls.p = p
            try:
                results[p] = ('ok', fn())
            except Deadlock as e:
                results[p] = ('deadlock', e)
            except BaseException as e:  # noqa
                results[p] = ('exc', e)
            finally:
                with self.cv:
                    self.finished.add(p)
                    if self.running == p:
                        self.running = None
                    self.cv.notify_all()

        ths = [threading.Thread(target=worker, args=(p, fn)) for p, fn in bodies.items()]
        for t in ths:
            t.daemon = True
            t.start()
        for t in ths:
            t.join(self.timeout * 3)
        return results


class Patch(object):
    """Wrap methods at class/module level for the duration of a with-block."""

    def __init__(self):
        self.saved = []

    def wrap(self, owner, name, maker):
        orig = getattr(owner, name)
        self.saved.append((owner, name, orig))
        setattr(owner, name, maker(orig))

    def __enter__(self):
        return self

    def __exit__(self, *a):
        for owner, name, orig in reversed(self.saved):
            setattr(owner, name, orig)
        self.saved = []
