------------------------------- MODULE Streams -------------------------------
(***************************************************************************)
(* Lazy streams of yaql's streaming operators as pull-based transducers    *)
(* (C14).  A pipeline is a chain  $.op1(..).op2(..)...demand(..)  over an  *)
(* endless counted source 0, 1, 2, ...; every operator is a stage that     *)
(* pulls from the stage below only when it must produce its next item.     *)
(* The model yields: the result, the number of source elements pulled and  *)
(* the applications of every probed lambda.  Real runs may exceed the      *)
(* model by at most one pull / one application (the property's slack).     *)
(*                                                                         *)
(* state S = [src, st, log, fuel]                                          *)
(*   src   next source value = number of pulls so far                      *)
(*   st    per-stage state [r, flag, buf, seen, acc] (meaning per stage)   *)
(*   log   tick log of lambda applications (from Eval.Apply)               *)
(*   fuel  remaining pulls before the run is declared unbounded            *)
(***************************************************************************)
EXTENDS Eval

St0 == [r |-> 0, flag |-> FALSE, buf |-> <<>>, seen |-> <<>>, acc |-> Null]
End == <<"end">>
Item(v) == <<"item", v>>
Boom == <<"err">>          \* a lambda or operator raised
Dry == <<"dry">>           \* out of fuel: the demand is not bounded

\* stages: sequence of [f, args] (args: ASTs; constants already evaluated where the operator needs numbers)
ConstI(a) == a[2][2]       \* <<"const", <<"i", n>>>>
Lam(a) == <<"lam", a, <<>>>>

PR(s, it) == [s |-> s, it |-> it]
SetSt(s, k, x) == [s EXCEPT !.st[k] = x]

RECURSIVE Pull(_, _, _)
\* pull one item from stage k of `stages` (0 = the source)
Pull(stages, s, k) ==
    IF k = 0 THEN
        (IF s.fuel = 0 THEN PR(s, Dry) ELSE PR([s EXCEPT !.src = @ + 1, !.fuel = @ - 1], Item(I(s.src))))
    ELSE
    LET f == stages[k].f
        a == stages[k].args
        me == s.st[k]
        up(s1) == Pull(stages, s1, k - 1)
        \* apply the stage's lambda (argument i) to values, threading the log
        app(s1, i, vals) == LET r == Apply(Lam(a[i]), vals, s1.log) IN [s |-> [s1 EXCEPT !.log = r.log], v |-> r.v]
    IN
    CASE f \in {"select"} ->
            LET p == up(s)
            IN IF p.it[1] # "item" THEN p
               ELSE LET r == app(p.s, 1, <<p.it[2]>>) IN IF IsErr(r.v) THEN PR(r.s, Boom) ELSE PR(r.s, Item(r.v))
      [] f = "where" ->
            LET p == up(s)
            IN IF p.it[1] # "item" THEN p
               ELSE LET r == app(p.s, 1, <<p.it[2]>>)
                    IN IF IsErr(r.v) THEN PR(r.s, Boom) ELSE IF Truthy(r.v) THEN PR(r.s, p.it) ELSE Pull(stages, r.s, k)
      [] f = "selectMany" ->
            \* the selector's collection is consumed lazily: when it is itself `<finite source>.select(lambda)` the inner lambda
            \* runs only for the inner elements that are emitted (buf holds the raw inner elements still to come)
            LET lazyInner == a[1][1] = "mcall" /\ a[1][3] = "select" /\ Len(a[1][4]) = 1
            IN IF me.buf # <<>> THEN
                    LET s1 == SetSt(s, k, [me EXCEPT !.buf = Tail(@)])
                    IN IF ~lazyInner THEN PR(s1, Item(Head(me.buf)))
                       ELSE LET r == Apply(Lam(a[1][4][1]), <<Head(me.buf)>>, s1.log)
                            IN IF IsErr(r.v) THEN PR([s1 EXCEPT !.log = r.log], Boom) ELSE PR([s1 EXCEPT !.log = r.log], Item(r.v))
               ELSE LET p == up(s)
                    IN IF p.it[1] # "item" THEN p
                       ELSE LET r == IF lazyInner THEN Apply(Lam(a[1][2]), <<p.it[2]>>, p.s.log) ELSE Apply(Lam(a[1]), <<p.it[2]>>, p.s.log)
                                s2 == [p.s EXCEPT !.log = r.log]
                                items == IF IsColl(r.v) THEN r.v[2] ELSE <<r.v>>
                            IN IF IsErr(r.v) THEN PR(s2, Boom)
                               ELSE Pull(stages, SetSt(s2, k, [s2.st[k] EXCEPT !.buf = items]), k)
      [] f = "skip" ->
            \* r = number already skipped
            IF me.r < ConstI(a[1]) THEN
                LET p == up(s) IN IF p.it[1] # "item" THEN p ELSE Pull(stages, SetSt(p.s, k, [p.s.st[k] EXCEPT !.r = @ + 1]), k)
            ELSE up(s)
      [] f \in {"take", "limit"} ->
            IF me.r >= ConstI(a[1]) THEN PR(s, End)         \* islice stops without touching the source
            ELSE LET p == up(s) IN IF p.it[1] # "item" THEN p ELSE PR(SetSt(p.s, k, [p.s.st[k] EXCEPT !.r = @ + 1]), p.it)
      [] f = "takeWhile" ->
            IF me.flag THEN PR(s, End)
            ELSE LET p == up(s)
                 IN IF p.it[1] # "item" THEN p
                    ELSE LET r == app(p.s, 1, <<p.it[2]>>)
                         IN IF IsErr(r.v) THEN PR(r.s, Boom) ELSE IF Truthy(r.v) THEN PR(r.s, p.it)
                            ELSE PR(SetSt(r.s, k, [r.s.st[k] EXCEPT !.flag = TRUE]), End)
      [] f = "skipWhile" ->
            IF me.flag THEN up(s)
            ELSE LET p == up(s)
                 IN IF p.it[1] # "item" THEN p
                    ELSE LET r == app(p.s, 1, <<p.it[2]>>)
                         IN IF IsErr(r.v) THEN PR(r.s, Boom) ELSE IF Truthy(r.v) THEN Pull(stages, r.s, k)
                            ELSE PR(SetSt(r.s, k, [r.s.st[k] EXCEPT !.flag = TRUE]), p.it)
      [] f \in {"append", "concat"} ->
            \* upstream first, then the extra items; flag = upstream exhausted, r = extras emitted
            LET extra == IF f = "append" THEN [i \in 1..Len(a) |-> a[i][2]] ELSE a[1][2][2]        \* constants / a constant list
            IN IF ~me.flag THEN
                    LET p == up(s)
                    IN IF p.it[1] = "item" \/ p.it[1] # "end" THEN p
                       ELSE Pull(stages, SetSt(p.s, k, [p.s.st[k] EXCEPT !.flag = TRUE]), k)
               ELSE IF me.r < Len(extra) THEN PR(SetSt(s, k, [me EXCEPT !.r = @ + 1]), Item(extra[me.r + 1])) ELSE PR(s, End)
      [] f = "prepend" ->
            \* a constant list in front of the stream (`[7, 8].concat(stream)`, `[7, 8] + stream`): its items first, then upstream -
            \* nothing is pulled from upstream before the constant items are used up
            LET extra == a[1][2][2]
            IN IF me.r < Len(extra) THEN PR(SetSt(s, k, [me EXCEPT !.r = @ + 1]), Item(extra[me.r + 1])) ELSE up(s)
      [] f = "distinct" ->
            LET p == up(s)
            IN IF p.it[1] # "item" THEN p
               ELSE LET r == IF Len(a) = 1 THEN app(p.s, 1, <<p.it[2]>>) ELSE [s |-> p.s, v |-> p.it[2]]
                    IN IF IsErr(r.v) THEN PR(r.s, Boom)
                       ELSE IF ~Hashable(r.v) THEN PR(r.s, <<"unmodelled">>)
                       ELSE IF Member(r.v, r.s.st[k].seen) THEN Pull(stages, r.s, k)
                       ELSE PR(SetSt(r.s, k, [r.s.st[k] EXCEPT !.seen = Append(@, r.v)]), p.it)
      [] f = "enumerate" ->
            LET p == up(s)
                start == IF Len(a) = 1 THEN ConstI(a[1]) ELSE 0
            IN IF p.it[1] # "item" THEN p
               ELSE PR(SetSt(p.s, k, [p.s.st[k] EXCEPT !.r = @ + 1]), Item(L(<<I(start + p.s.st[k].r), p.it[2]>>)))
      [] f = "zip" ->
            \* zip(upstream, list): the upstream item is taken first, then the list is found exhausted
            LET p == up(s)
                lst == a[1][2][2]
            IN IF p.it[1] # "item" THEN p
               ELSE IF p.s.st[k].r >= Len(lst) THEN PR(p.s, End)
               ELSE PR(SetSt(p.s, k, [p.s.st[k] EXCEPT !.r = @ + 1]), Item(L(<<p.it[2], lst[p.s.st[k].r + 1]>>)))
      [] f = "accumulate" ->
            \* no seed: the first item is passed on as it is; flag = started
            LET p == up(s)
            IN IF p.it[1] # "item" THEN p
               ELSE IF ~p.s.st[k].flag THEN PR(SetSt(p.s, k, [p.s.st[k] EXCEPT !.flag = TRUE, !.acc = p.it[2]]), p.it)
               ELSE LET r == app(p.s, 1, <<p.s.st[k].acc, p.it[2]>>)
                    IN IF IsErr(r.v) THEN PR(r.s, Boom) ELSE PR(SetSt(r.s, k, [r.s.st[k] EXCEPT !.acc = r.v]), Item(r.v))
      [] f = "insert" ->
            \* iter_insert: at index = position the next upstream item is taken, the value goes out first, the item is kept (buf)
            IF me.buf # <<>> THEN PR(SetSt(s, k, [me EXCEPT !.buf = <<>>]), Item(me.buf[1]))
            ELSE LET p == up(s)
                 IN IF p.it[1] = "end" THEN
                        (IF ~p.s.st[k].flag /\ ConstI(a[1]) >= p.s.st[k].r
                         THEN PR(SetSt(p.s, k, [p.s.st[k] EXCEPT !.flag = TRUE]), Item(a[2][2])) ELSE p)
                    ELSE IF p.it[1] # "item" THEN p
                    ELSE IF p.s.st[k].r = ConstI(a[1])
                         THEN PR(SetSt(p.s, k, [p.s.st[k] EXCEPT !.r = @ + 1, !.flag = TRUE, !.buf = <<p.it[2]>>]), Item(a[2][2]))
                    ELSE PR(SetSt(p.s, k, [p.s.st[k] EXCEPT !.r = @ + 1]), p.it)
      [] f = "delete" ->
            LET p == up(s)
                cnt == IF Len(a) = 2 THEN ConstI(a[2]) ELSE 1
            IN IF p.it[1] # "item" THEN p
               ELSE LET i == p.s.st[k].r
                        s2 == SetSt(p.s, k, [p.s.st[k] EXCEPT !.r = @ + 1])
                    IN IF Affected(i, ConstI(a[1]), cnt) THEN Pull(stages, s2, k) ELSE PR(s2, p.it)
      [] f = "replace" ->
            LET p == up(s)
                cnt == IF Len(a) = 3 THEN ConstI(a[3]) ELSE 1
            IN IF p.it[1] # "item" THEN p
               ELSE LET i == p.s.st[k].r
                        s2 == SetSt(p.s, k, [p.s.st[k] EXCEPT !.r = @ + 1])
                    IN IF ~Affected(i, ConstI(a[1]), cnt) THEN PR(s2, p.it)
                       ELSE IF ~p.s.st[k].flag THEN PR(SetSt(s2, k, [s2.st[k] EXCEPT !.flag = TRUE]), Item(a[2][2]))
                       ELSE Pull(stages, s2, k)
      [] f = "slice" ->
            \* collects up to n upstream items into one list; nothing collected -> end
            LET RECURSIVE Fill(_, _)
                Fill(s1, acc) ==
                    IF Len(acc) = ConstI(a[1]) THEN PR(s1, Item(L(acc)))
                    ELSE LET p == Pull(stages, s1, k - 1)
                         IN IF p.it[1] = "item" THEN Fill(p.s, Append(acc, p.it[2]))
                            ELSE IF p.it[1] = "end" THEN (IF acc = <<>> THEN p ELSE PR(SetSt(p.s, k, [p.s.st[k] EXCEPT !.flag = TRUE]), Item(L(acc))))
                            ELSE p
            IN IF me.flag THEN PR(s, End) ELSE Fill(s, <<>>)
      [] f = "memorize" -> up(s)
      [] f = "join" ->
            \* outer item held in acc (flag = holding), r = next index into the inner collection.  The inner collection is
            \* memorised lazily: when it is `<list>.select(lambda)` its elements are computed on first use only (seen = the
            \* computed prefix) - a join that is not drained never runs the lambda for the rest.
            LET lazyInner == a[1][1] = "mcall" /\ a[1][3] = "select" /\ Len(a[1][4]) = 1
                raw == IF lazyInner THEN a[1][2][2][2] ELSE a[1][2][2]
            IN IF ~me.flag THEN
                    LET p == up(s)
                    IN IF p.it[1] # "item" THEN p
                       ELSE Pull(stages, SetSt(p.s, k, [p.s.st[k] EXCEPT !.flag = TRUE, !.acc = p.it[2], !.r = 0]), k)
               ELSE IF me.r >= Len(raw) THEN Pull(stages, SetSt(s, k, [me EXCEPT !.flag = FALSE]), k)
               ELSE LET known == ~lazyInner \/ me.r < Len(me.seen)
                        yr == IF ~lazyInner THEN [v |-> raw[me.r + 1], log |-> s.log]
                              ELSE IF known THEN [v |-> me.seen[me.r + 1], log |-> s.log]
                              ELSE Apply(Lam(a[1][4][1]), <<raw[me.r + 1]>>, s.log)
                        y == yr.v
                        s1 == SetSt([s EXCEPT !.log = yr.log], k, [me EXCEPT !.r = @ + 1, !.seen = IF known THEN @ ELSE Append(@, y)])
                    IN IF IsErr(y) THEN PR(s1, Boom)
                       ELSE LET c == app(s1, 2, <<me.acc, y>>)
                            IN IF IsErr(c.v) THEN PR(c.s, Boom)
                               ELSE IF ~Truthy(c.v) THEN Pull(stages, c.s, k)
                               ELSE LET v == app(c.s, 3, <<me.acc, y>>) IN IF IsErr(v.v) THEN PR(v.s, Boom) ELSE PR(v.s, Item(v.v))
      [] OTHER -> PR(s, <<"unmodelled">>)

\* drain stage k completely (finalisation of a lazy result)
RECURSIVE Drain(_, _, _, _)
Drain(stages, s, k, acc) ==
    LET p == Pull(stages, s, k)
    IN IF p.it[1] = "item" THEN Drain(stages, p.s, k, Append(acc, p.it[2])) ELSE [s |-> p.s, it |-> p.it, acc |-> acc]

Out(s, tag, v) == [tag |-> tag, v |-> v, pulls |-> s.src, log |-> s.log]

(***************************************************************************)
(* The demand: the last operator of the pipeline, applied to stage n.      *)
(***************************************************************************)
RECURSIVE Scan(_, _, _, _, _, _)
\* pull until the predicate decides: mode "any" (stop at first true), "all" (stop at first false), "index" (index of first true)
Scan(stages, s, n, lam, mode, i) ==
    LET p == Pull(stages, s, n)
    IN IF p.it[1] = "end" THEN Out(p.s, "value", CASE mode = "any" -> B(FALSE) [] mode = "all" -> B(TRUE) [] OTHER -> I(-1))
       ELSE IF p.it[1] # "item" THEN Out(p.s, p.it[1], Null)
       ELSE LET r == Apply(lam, <<p.it[2]>>, p.s.log)
                s2 == [p.s EXCEPT !.log = r.log]
            IN IF IsErr(r.v) THEN Out(s2, "err", Null)
               ELSE IF mode = "any" /\ Truthy(r.v) THEN Out(s2, "value", B(TRUE))
               ELSE IF mode = "all" /\ ~Truthy(r.v) THEN Out(s2, "value", B(FALSE))
               ELSE IF mode = "index" /\ Truthy(r.v) THEN Out(s2, "value", I(i))
               ELSE Scan(stages, s2, n, lam, mode, i + 1)

RunPipeline(stages, demand, fuel) ==
    LET n == Len(stages)
        s0 == [src |-> 0, st |-> [i \in 1..n |-> St0], log |-> <<>>, fuel |-> fuel]
        f == demand.f
        a == demand.args
        finish(ds) == IF ds.it[1] = "end" THEN Out(ds.s, "value", L(ds.acc)) ELSE Out(ds.s, ds.it[1], Null)
    IN CASE f \in {"take", "limit", "takeWhile", "toList"} ->
                \* a lazy result: finalisation drains it
                LET st2 == IF f = "toList" THEN stages ELSE Append(stages, demand)
                    s1 == [s0 EXCEPT !.st = [i \in 1..Len(st2) |-> St0]]
                IN finish(Drain(st2, s1, Len(st2), <<>>))
         [] f = "first" ->
                LET p == Pull(stages, s0, n)
                IN IF p.it[1] = "item" THEN Out(p.s, "value", p.it[2])
                   ELSE IF p.it[1] = "end" THEN (IF Len(a) = 1 THEN Out(p.s, "value", a[1][2]) ELSE Out(p.s, "err", Null))
                   ELSE Out(p.s, p.it[1], Null)
         [] f = "any" /\ a = <<>> ->
                LET p == Pull(stages, s0, n)
                IN IF p.it[1] \in {"item", "end"} THEN Out(p.s, "value", B(p.it[1] = "item")) ELSE Out(p.s, p.it[1], Null)
         [] f = "any" -> Scan(stages, s0, n, Lam(a[1]), "any", 0)
         [] f = "all" -> Scan(stages, s0, n, Lam(a[1]), "all", 0)
         [] f = "indexWhere" -> Scan(stages, s0, n, Lam(a[1]), "index", 0)
         [] f = "indexOf" -> Scan(stages, s0, n, Lam(<<"bin", "=", <<"var", "">>, a[1]>>), "index", 0)
         [] OTHER -> Out(s0, "unmodelled", Null)
=============================================================================
