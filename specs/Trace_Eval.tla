----------------------------- MODULE Trace_Eval -----------------------------
(***************************************************************************)
(* Validates recorded evaluations against the reference interpreter        *)
(* Eval.tla.  One NDJSON line per evaluation:                              *)
(*   {id, ast, data, res, log, eager, mode}                                *)
(*     ast, data  the expression (as an AST) and the document bound to `$` *)
(*     res        the finalised real result, or ["e", class]               *)
(*     log        the real tick log: [[probe id, value], ...]              *)
(*     eager      ids of probes that sit outside every lambda body         *)
(*     mode       "value" (C04/C13), "log" (C11: value and log)            *)
(* Value clause: equal under Python equality, or both errors.              *)
(* Log clause (C11): same number of ticks per probe; the eager probes in   *)
(* the same order as the reference; each lambda probe sees its elements in *)
(* the same order.  (How lazily evaluated lambdas interleave with later    *)
(* siblings is not constrained by the property.)                           *)
(***************************************************************************)
EXTENDS Eval, Json, IOUtils

TraceLog == ndJsonDeserialize(IOEnv.TRACE_FILE)
VARIABLE pos

Proj(log, ids) == SelectSeq(log, LAMBDA t : t[1] \in ids)
IdsOf(log) == {log[i][1] : i \in 1..Len(log)}
ToSetQ(q) == {q[i] : i \in 1..Len(q)}

Verdict(e) ==
    LET r == Run(e.ast, e.data)
    IN IF IsErr(r.v) /\ r.v[2] \in {"unmodelled", "out-of-domain", "endless"} THEN "skip:" \o r.v[2]
       ELSE IF IsErr(r.v) THEN (IF e.res[1] = "e" THEN "ok" ELSE "model-error-real-value")
       ELSE IF e.res[1] = "e" THEN "real-error-model-value"
       ELSE IF ~VEq(r.v, e.res) THEN "value"
       ELSE IF e.mode = "law" THEN (IF VEq(e.res[2][1], e.res[2][2]) THEN "ok" ELSE "law")     \* res = [lhs, rhs]
       ELSE IF e.mode # "log" THEN "ok"
       ELSE LET ids == IdsOf(r.log) \cup IdsOf(e.log)
                eager == ToSetQ(e.eager)
            IN IF \E i \in ids : Len(Proj(r.log, {i})) # Len(Proj(e.log, {i})) THEN "tick-count"
               ELSE IF Proj(r.log, eager) # Proj(e.log, eager) THEN "eager-order"
               ELSE IF \E i \in ids \ eager : Proj(r.log, {i}) # Proj(e.log, {i}) THEN "lambda-element-order"
               ELSE "ok"

Init == pos = 1
Next == /\ pos <= Len(TraceLog)
        /\ pos' = pos + 1
        /\ LET v == Verdict(TraceLog[pos])
           IN IF v = "ok" THEN TRUE
              ELSE IF v \in {"skip:unmodelled", "skip:out-of-domain", "skip:endless"} THEN PrintT(<<"SKIP", TraceLog[pos].id, v>>)
              ELSE PrintT(<<"REJECT", TraceLog[pos].id, v>>)
TraceSpec == Init /\ [][Next]_pos
TraceAccepted == TLCGet("stats").diameter - 1 = Len(TraceLog)
=============================================================================
