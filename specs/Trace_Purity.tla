---------------------------- MODULE Trace_Purity ----------------------------
(***************************************************************************)
(* Validates write events recorded from real evaluations against the       *)
(* ownership discipline of Purity.tla.  One NDJSON line per event:         *)
(*  {tr, seq, ev:"begin", e, handed}   evaluation e starts on context      *)
(*                                     object `handed`                     *)
(*  {tr, seq, ev:"new", e, obj}        e created context/iterator obj      *)
(*  {tr, seq, ev:"write", e, obj, kind, name}                              *)
(*        kind: ctx-set | ctx-del | ctx-register | ctx-delete-function |   *)
(*              setattr:<Class>                                            *)
(*  {tr, seq, ev:"end", e}                                                 *)
(* e = 0 is the host (setup code outside any evaluation).                  *)
(***************************************************************************)
EXTENDS Naturals, Sequences, FiniteSets, TLC, Json, IOUtils

TraceLog == ndJsonDeserialize(IOEnv.TRACE_FILE)
VARIABLES pos, owner, handed, cur
\* owner : set of <<obj, e>> for objects created during evaluations (everything else is host-owned)
\* handed: set of <<e, obj>>
tvars == <<pos, owner, handed, cur>>

E == TraceLog[pos]
Reject(clause) == PrintT(<<"REJECT", E.tr, E.seq, clause>>)
Check(b, clause) == IF b THEN TRUE ELSE Reject(clause)

\* idempotent lazily initialised caches: tolerated writes (C18 reading decision), by (kind, name)
Tolerated == {<<"setattr:FrozenDict", "_hash">>}
DollarNames == {"$", "$1", "", "1"}

Init == pos = 1 /\ owner = {} /\ handed = {} /\ cur = 0
Fresh == pos = 1 \/ TraceLog[pos].tr # cur
O0 == IF Fresh THEN {} ELSE owner
H0 == IF Fresh THEN {} ELSE handed

Next ==
    /\ pos <= Len(TraceLog)
    /\ pos' = pos + 1
    /\ cur' = E.tr
    /\ CASE E.ev = "begin" -> owner' = O0 /\ handed' = {h \in H0 : h[1] # E.e} \cup {<<E.e, E.handed>>}
         [] E.ev = "new"   -> owner' = {x \in O0 : x[1] # E.obj} \cup {<<E.obj, E.e>>} /\ handed' = H0
         [] E.ev = "end"   -> owner' = O0 /\ handed' = {h \in H0 : h[1] # E.e}
         [] E.ev = "write" ->
              /\ owner' = O0 /\ handed' = H0
              /\ Check(\/ E.e = 0                                              \* host code
                       \/ <<E.obj, E.e>> \in O0                                \* its own object
                       \/ (E.kind = "ctx-set" /\ <<E.e, E.obj>> \in H0 /\ E.name \in DollarNames)   \* `$` of the handed context
                       \/ <<E.kind, E.name>> \in Tolerated,
                       IF \E x \in O0 : x[1] = E.obj THEN "writes-another-evaluations-object" ELSE "writes-host-object")

TraceSpec == Init /\ [][Next]_tvars
TraceAccepted == TLCGet("stats").diameter - 1 = Len(TraceLog)
=============================================================================
