---------------------------- MODULE Yaqlization ----------------------------
(***************************************************************************)
(* Access to host objects from expressions (C07).                          *)
(*                                                                         *)
(* A host object is reachable only if it was yaqlized, and then only       *)
(* through the three forms  $o.name  (attribute),  $o.name(...) (method),  *)
(* $o[name] (indexer), each guarded by the object's settings:              *)
(*   switches attrs / methods / indexer, whitelist, blacklist (entries     *)
(*   match a set of names: string = one name, regex, predicate),           *)
(*   remapping name -> member (attribute and method forms only; remap      *)
(*   targets are blacklisted unless blacklistRemapped is off).             *)
(* Names beginning with "_" are never reachable.                           *)
(***************************************************************************)
EXTENDS Naturals, Sequences, FiniteSets, TLC

CONSTANTS Names,      \* member names of the probe class
          Private,    \* the names that begin with an underscore
          Entries,    \* white/blacklist entries; EntryMatches[e] = set of names the entry matches
          EntryMatches,
          RemapSrc, RemapDst

Forms == {"attr", "method", "index"}

\* settings: [attrs, methods, indexer : BOOLEAN, wl, bl : SUBSET Entries, remap : BOOLEAN, blr : BOOLEAN]
Matches(es, n) == \E e \in es : n \in EntryMatches[e]
Remap(s, n) == IF s.remap /\ n = RemapSrc THEN RemapDst ELSE n

SwitchOn(s, form) == CASE form = "attr" -> s.attrs [] form = "method" -> s.methods [] form = "index" -> s.indexer

\* blacklist as build_yaqlization_settings leaves it: remap targets are added unless switched off
BlackListed(s, n) == Matches(s.bl, n) \/ (s.remap /\ s.blr /\ n = RemapDst)

(* decision for `form` applied with `name` to an object with settings s:   *)
(*   [kind |-> "reach", member |-> m] the expression reaches exactly member m *)
(*   [kind |-> "deny",  member |-> ""] nothing of the object is reached      *)
Decision(s, form, name) ==
    IF ~SwitchOn(s, form) THEN [kind |-> "deny", member |-> ""]                   \* no overload accepts the object
    ELSE IF name \in Private THEN [kind |-> "deny", member |-> ""]
    ELSE IF s.wl # {} /\ ~Matches(s.wl, name) THEN [kind |-> "deny", member |-> ""]
    ELSE IF s.wl = {} /\ BlackListed(s, name) THEN [kind |-> "deny", member |-> ""]
    ELSE [kind |-> "reach", member |-> IF form = "index" THEN name ELSE Remap(s, name)]

\* C07: the allow/deny decision for a name is the same for the three forms (when all three are switched on)
SameDecisionAcrossForms(s) ==
    (s.attrs /\ s.methods /\ s.indexer) =>
        \A n \in Names : \A f, g \in Forms : Decision(s, f, n).kind = Decision(s, g, n).kind
\* ... and a private name is never reached, whatever the settings say
PrivateNeverReached(s) == \A n \in Private, f \in Forms : Decision(s, f, n).kind = "deny"
\* ... not even as the target of a remapping
PrivateNotRemapTarget == RemapDst \notin Private

(* members the runtime itself looks up on any object while dispatching (type probes): not "reaching a member" *)
RuntimeProbes == {"__class__", "__yaqlization__"}
=============================================================================
