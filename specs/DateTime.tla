------------------------------ MODULE DateTime ------------------------------
(***************************************************************************)
(* yaql date/time values (C20).  A datetime denotes an instant plus an     *)
(* offset; a timespan is a signed duration.                                *)
(*   instant / timespan : <<d, s, u>>  days, seconds (0..86399),           *)
(*                        microseconds (0..999999) - normalised like       *)
(*                        Python's timedelta; instants count from          *)
(*                        0001-01-01T00:00:00 UTC                          *)
(*   datetime           : [i |-> instant, off |-> minutes east of UTC]     *)
(* TLC integers are 32 bit, hence the three-field representation.          *)
(***************************************************************************)
EXTENDS Integers, Sequences, TLC

Norm(d, s, u) ==
    LET s1 == s + (u \div 1000000)
        u1 == u % 1000000
        d1 == d + (s1 \div 86400)
        s2 == s1 % 86400
    IN <<d1, s2, u1>>

Add(a, b) == Norm(a[1] + b[1], a[2] + b[2], a[3] + b[3])
Neg(a)    == Norm(0 - a[1], 0 - a[2], 0 - a[3])
Sub(a, b) == Add(a, Neg(b))
Cmp(a, b) == IF a[1] # b[1] THEN (IF a[1] < b[1] THEN -1 ELSE 1)
             ELSE IF a[2] # b[2] THEN (IF a[2] < b[2] THEN -1 ELSE 1)
             ELSE IF a[3] # b[3] THEN (IF a[3] < b[3] THEN -1 ELSE 1) ELSE 0
Zero == <<0, 0, 0>>
IsNorm(a) == a[2] \in 0..86399 /\ a[3] \in 0..999999

\* |a - b| <= tol microseconds (tol < 10^6 * 2000, so only the low fields matter once days agree)
Within(a, b, tol) ==
    LET d == Sub(a, b)
        ad == IF Cmp(d, Zero) < 0 THEN Neg(d) ELSE d
    IN ad[1] = 0 /\ ad[2] < 2000 /\ ad[2] * 1000000 + ad[3] <= tol      \* (ad[2] < 2000 keeps the product inside 32 bits)

(* ---- civil calendar (proleptic Gregorian) ------------------------------ *)
Leap(y) == (y % 4 = 0 /\ y % 100 # 0) \/ y % 400 = 0
DaysBeforeMonth(y, m) ==
    LET cum == <<0, 31, 59, 90, 120, 151, 181, 212, 243, 273, 304, 334>>
    IN cum[m] + (IF m > 2 /\ Leap(y) THEN 1 ELSE 0)
DaysBeforeYear(y) == LET p == y - 1 IN 365 * p + (p \div 4) - (p \div 100) + (p \div 400)
\* datetime(year, month, day, hour, minute, second, microsecond, offset): the wall clock at that offset
FromParts(y, mo, dd, h, mi, s, us, off) ==
    [i |-> Norm(DaysBeforeYear(y) + DaysBeforeMonth(y, mo) + dd - 1, h * 3600 + mi * 60 + s - off * 60, us), off |-> off]

\* wall-clock reading of a datetime: the instant shifted by the offset
Wall(dt) == Add(dt.i, <<0, dt.off * 60, 0>>)

(* ---- the yaql functions -------------------------------------------------- *)
Utc(dt)        == [i |-> dt.i, off |-> 0]
Plus(dt, t)    == [i |-> Add(dt.i, t), off |-> dt.off]
Minus(dt, t)   == [i |-> Sub(dt.i, t), off |-> dt.off]
Diff(d1, d2)   == Sub(d1.i, d2.i)
Before(d1, d2) == Cmp(d1.i, d2.i) < 0
Same(d1, d2)   == Cmp(d1.i, d2.i) = 0
\* a host datetime without zone is the same wall time at UTC
NaiveAsUtc(wall) == [i |-> wall, off |-> 0]

(***************************************************************************)
(* Verdicts for recorded evaluations.  Every event carries the operands    *)
(* and the real results projected into the representation above.          *)
(***************************************************************************)
DT(x) == [i |-> <<x[1], x[2], x[3]>>, off |-> x[4]]      \* logged as [d, s, u, off]
TS(x) == <<x[1], x[2], x[3]>>

BuildVerdict(e) ==
    \* datetime(y, m, d, h, mi, s, us, offset => timespan(minutes => off)) and its component properties
    LET want == FromParts(e.y, e.mo, e.dd, e.h, e.mi, e.s, e.us, e.off)
    IN IF DT(e.res) # want THEN "datetime-from-parts"
       ELSE IF e.parts # <<e.y, e.mo, e.dd, e.h, e.mi, e.s, e.us>> THEN "component-properties"
       ELSE IF TS(e.offres) # Norm(0, e.off * 60, 0) THEN "offset-property"
       ELSE "ok"

TimestampVerdict(e) ==
    \* e.d datetime; e.ts = d.timestamp as an exact instant relative to 1970; e.back = datetime(d.timestamp, d.offset)
    LET d == DT(e.d)
        epoch == <<719162, 0, 0>>
    IN IF ~Within(Add(epoch, TS(e.ts)), d.i, e.tol) THEN "timestamp-is-the-instant"
       ELSE IF ~Within(DT(e.back).i, d.i, e.tol) THEN "datetime(timestamp,offset)-roundtrip"
       ELSE IF DT(e.back).off # d.off THEN "datetime(timestamp,offset)-offset"
       ELSE "ok"

FromTimestampVerdict(e) ==
    \* datetime(s, o): e.s exact instant of the number s relative to 1970, e.res result, e.rts = result.timestamp
    LET epoch == <<719162, 0, 0>>
    IN IF ~Within(DT(e.res).i, Add(epoch, TS(e.s)), e.tol) THEN "datetime(s,o)-instant"
       ELSE IF DT(e.res).off # e.off THEN "datetime(s,o)-offset"
       ELSE IF ~Within(TS(e.rts), TS(e.s), e.tol) THEN "datetime(s,o).timestamp=s"
       ELSE "ok"

UtcVerdict(e) ==
    IF DT(e.res) # Utc(DT(e.d)) THEN "utc-same-instant-offset-zero" ELSE "ok"

ArithVerdict(e) ==
    LET d == DT(e.d)  t == TS(e.t)
    IN IF DT(e.plus) # Plus(d, t) THEN "d+t"
       ELSE IF DT(e.tplus) # Plus(d, t) THEN "t+d"
       ELSE IF DT(e.back) # d THEN "(d+t)-t=d"
       ELSE IF TS(e.diff) # t THEN "(d+t)-d=t"
       ELSE IF DT(e.minus) # Minus(d, t) THEN "d-t"
       ELSE "ok"

CompareVerdict(e) ==
    LET a == DT(e.a)  b == DT(e.b)
    IN IF (e.lt = 1) # Before(a, b) THEN "<"
       ELSE IF (e.gt = 1) # Before(b, a) THEN ">"
       ELSE IF (e.le = 1) # ~Before(b, a) THEN "<="
       ELSE IF (e.ge = 1) # ~Before(a, b) THEN ">="
       ELSE IF (e.eq = 1) # Same(a, b) THEN "="
       ELSE IF TS(e.diff) # Diff(a, b) THEN "a-b"
       ELSE "ok"

UnitsVerdict(e) ==
    \* e.x timespan; e.us = x.microseconds (as a timespan rebuilt exactly from the integer);
    \* e.units[k] = the float unit property times its unit, rounded to microseconds; e.rt = timespan(microseconds => x.microseconds)
    LET x == TS(e.x)
    IN IF TS(e.us) # x THEN "microseconds-exact"
       ELSE IF TS(e.rt) # x THEN "timespan(microseconds=>x.microseconds)=x"
       ELSE IF \E k \in 1..Len(e.units) : ~Within(TS(e.units[k]), x, e.tol) THEN "unit-properties-one-quantity"
       ELSE IF TS(e.neg) # Neg(x) THEN "unary-minus"
       ELSE "ok"

NaiveVerdict(e) ==
    \* each function applied to a naive host datetime and to the same wall time at UTC must agree
    IF \E k \in 1..Len(e.naive) : e.naive[k] # e.aware[k] THEN "naive-is-utc" ELSE "ok"

Verdict(e) ==
    CASE e.act = "build" -> BuildVerdict(e)
      [] e.act = "timestamp" -> TimestampVerdict(e)
      [] e.act = "fromts" -> FromTimestampVerdict(e)
      [] e.act = "utc" -> UtcVerdict(e)
      [] e.act = "arith" -> ArithVerdict(e)
      [] e.act = "compare" -> CompareVerdict(e)
      [] e.act = "units" -> UnitsVerdict(e)
      [] e.act = "naive" -> NaiveVerdict(e)

(* ---- M: laws of the algebra on a small range (guards against a self-contradictory spec) ---- *)
SmallSpans == {<<d, s, u>> : d \in {0 - 1, 0, 1}, s \in {0, 1, 86399}, u \in {0, 999999}}
SmallOffs  == {0 - 1439, 0 - 60, 0, 90, 1439}
SmallDts   == {[i |-> i, off |-> o] : i \in {<<730000, 0, 0>>, <<730000, 86399, 999999>>, <<0, 0, 0>>}, o \in SmallOffs}
AlgebraLaws ==
    /\ \A d \in SmallDts, t \in SmallSpans :
          /\ Minus(Plus(d, t), t) = d
          /\ Diff(Plus(d, t), d) = t
          /\ Same(Utc(d), d) /\ Utc(d).off = 0
          /\ IsNorm(Plus(d, t).i)
    /\ \A a, b \in SmallSpans : Sub(Add(a, b), b) = a /\ Add(a, Neg(a)) = Zero
    /\ FromParts(1970, 1, 1, 0, 0, 0, 0, 0).i = <<719162, 0, 0>>
    /\ FromParts(2020, 1, 1, 12, 0, 0, 0, 180).i = FromParts(2020, 1, 1, 9, 0, 0, 0, 0).i
    /\ FromParts(2000, 3, 1, 0, 0, 0, 0, 0).i[1] - FromParts(2000, 2, 28, 0, 0, 0, 0, 0).i[1] = 2
    /\ FromParts(1900, 3, 1, 0, 0, 0, 0, 0).i[1] - FromParts(1900, 2, 28, 0, 0, 0, 0, 0).i[1] = 1
=============================================================================
