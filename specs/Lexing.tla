------------------------------- MODULE Lexing -------------------------------
(***************************************************************************)
(* Literals of the yaql language (C16, and the token actions of C03):      *)
(* the three string styles with their escape decoding, numerals, keywords. *)
(* Text is a sequence of code points.                                      *)
(*                                                                         *)
(*   'single'  "double"   escape sequences decoded (DecodeEscapes)         *)
(*   `verbatim`           nothing changes except \` -> `                   *)
(*                                                                         *)
(* A literal body is first recognised by the token regex                   *)
(*   Q ( [^Q\] | \ . )* Q          (Lexable)                               *)
(* then the token action computes the value.  The action can fail          *)
(* (malformed \x \u \U \N{..}); that outcome is "error" - since the fix a  *)
(* YaqlLexicalException, before it a UnicodeDecodeError.                   *)
(***************************************************************************)
EXTENDS Integers, Sequences, FiniteSets, TLC

BSL == 92     \* backslash
SQ  == 39
DQ  == 34
BQ  == 96
NL  == 10
Delim(style) == CASE style = "single" -> SQ [] style = "double" -> DQ [] style = "verbatim" -> BQ

IsOct(c) == c \in 48..55
IsDec(c) == c \in 48..57
IsHex(c) == c \in 48..57 \/ c \in 65..70 \/ c \in 97..102
HexVal(c) == IF c \in 48..57 THEN c - 48 ELSE IF c \in 65..70 THEN c - 55 ELSE c - 87

\* body (text between the delimiters) is matched by  ([^Q\\]|\\.)*  - '.' does not match a newline
RECURSIVE Lexable(_, _)
Lexable(body, q) ==
    IF body = <<>> THEN TRUE
    ELSE IF Head(body) = BSL THEN Len(body) >= 2 /\ body[2] # NL /\ Lexable(SubSeq(body, 3, Len(body)), q)
    ELSE Head(body) # q /\ Lexable(Tail(body), q)

SingleCharEscape(c) ==
    CASE c = 92 -> 92 [] c = 39 -> 39 [] c = 34 -> 34 [] c = 97 -> 7 [] c = 98 -> 8 [] c = 102 -> 12
      [] c = 110 -> 10 [] c = 114 -> 13 [] c = 116 -> 9 [] c = 118 -> 11 [] OTHER -> -1

RECURSIVE HexNum(_)
HexNum(ds) == IF ds = <<>> THEN 0 ELSE HexNum(SubSeq(ds, 1, Len(ds) - 1)) * 16 + HexVal(ds[Len(ds)])
AllHex(ds) == \A i \in 1..Len(ds) : IsHex(ds[i])
NoNL(ds) == \A i \in 1..Len(ds) : ds[i] # NL

\* index of the first "}" at or after position i (0 if none)
RECURSIVE FindBrace(_, _)
FindBrace(s, i) == IF i > Len(s) THEN 0 ELSE IF s[i] = 125 THEN i ELSE FindBrace(s, i + 1)

(***************************************************************************)
(* decode_escapes: scan left to right; at a backslash try the escape forms *)
(* in the order of ESCAPE_SEQUENCE_RE; anything else stands for itself.    *)
(* nm is the environment's Unicode name table restricted to the names in   *)
(* play: a sequence of <<name, code point>> pairs.                         *)
(* Result: [ok |-> TRUE, v |-> code points] or [ok |-> FALSE, v |-> <<>>]. *)
(***************************************************************************)
NameLookup(nm, n) == IF \E i \in 1..Len(nm) : nm[i][1] = n
                     THEN nm[CHOOSE i \in 1..Len(nm) : nm[i][1] = n][2] ELSE -1

Bad == [ok |-> FALSE, v |-> <<>>]
Cons(c, r) == IF r.ok THEN [ok |-> TRUE, v |-> <<c>> \o r.v] ELSE Bad

RECURSIVE Decode(_, _)
Decode(s, nm) ==
    IF s = <<>> THEN [ok |-> TRUE, v |-> <<>>]
    ELSE IF Head(s) # BSL \/ Len(s) = 1 THEN Cons(Head(s), Decode(Tail(s), nm))
    ELSE LET c == s[2]
             rest(n) == SubSeq(s, n + 1, Len(s))
         IN \* \UXXXXXXXX : any 8 characters; must be 8 hex digits of a code point
            IF c = 85 /\ Len(s) >= 10 /\ NoNL(SubSeq(s, 3, 10))
            THEN IF AllHex(SubSeq(s, 3, 10)) /\ AllHex(SubSeq(s, 3, 4)) /\ HexNum(SubSeq(s, 3, 4)) = 0
                    /\ HexNum(SubSeq(s, 5, 10)) <= 1114111
                 THEN Cons(HexNum(SubSeq(s, 5, 10)), Decode(rest(10), nm)) ELSE Bad
            \* \uXXXX
            ELSE IF c = 117 /\ Len(s) >= 6 /\ NoNL(SubSeq(s, 3, 6))
            THEN IF AllHex(SubSeq(s, 3, 6)) THEN Cons(HexNum(SubSeq(s, 3, 6)), Decode(rest(6), nm)) ELSE Bad
            \* \xXX
            ELSE IF c = 120 /\ Len(s) >= 4 /\ NoNL(SubSeq(s, 3, 4))
            THEN IF AllHex(SubSeq(s, 3, 4)) THEN Cons(HexNum(SubSeq(s, 3, 4)), Decode(rest(4), nm)) ELSE Bad
            \* \o, \oo, \ooo  (greedy, up to three octal digits)
            ELSE IF IsOct(c)
            THEN LET n == IF Len(s) >= 4 /\ IsOct(s[3]) /\ IsOct(s[4]) THEN 3
                          ELSE IF Len(s) >= 3 /\ IsOct(s[3]) THEN 2 ELSE 1
                     val == IF n = 3 THEN (s[2] - 48) * 64 + (s[3] - 48) * 8 + (s[4] - 48)
                            ELSE IF n = 2 THEN (s[2] - 48) * 8 + (s[3] - 48) ELSE s[2] - 48
                 IN Cons(val, Decode(rest(n + 1), nm))
            \* \N{name}
            ELSE IF c = 78 /\ Len(s) >= 5 /\ s[3] = 123 /\ s[4] # 125 /\ FindBrace(s, 5) # 0
            THEN LET e == FindBrace(s, 5)
                     cp == NameLookup(nm, SubSeq(s, 4, e - 1))
                 IN IF cp >= 0 THEN Cons(cp, Decode(rest(e), nm)) ELSE Bad
            \* single character escapes
            ELSE IF SingleCharEscape(c) >= 0 THEN Cons(SingleCharEscape(c), Decode(rest(2), nm))
            \* not an escape: the backslash stands for itself
            ELSE Cons(BSL, Decode(Tail(s), nm))

\* verbatim: str.replace('\`', '`')
RECURSIVE Verbatim(_)
Verbatim(s) ==
    IF s = <<>> THEN <<>>
    ELSE IF Head(s) = BSL /\ Len(s) >= 2 /\ s[2] = BQ THEN <<BQ>> \o Verbatim(SubSeq(s, 3, Len(s)))
    ELSE <<Head(s)>> \o Verbatim(Tail(s))

\* value of the literal  Q body Q :  [kind |-> "value", v] | [kind |-> "error"] | [kind |-> "notoken"]
LiteralN(body, style, nm) ==
    IF ~Lexable(body, Delim(style)) THEN [kind |-> "notoken", v |-> <<>>]
    ELSE IF style = "verbatim" THEN [kind |-> "value", v |-> Verbatim(body)]
    ELSE LET d == Decode(body, nm) IN IF d.ok THEN [kind |-> "value", v |-> d.v] ELSE [kind |-> "error", v |-> <<>>]

Literal(body, style) == LiteralN(body, style, <<>>)

(***************************************************************************)
(* A spelling for every string (C16 P1).                                   *)
(* single/double: escape the backslash and the delimiter, nothing else.    *)
(* verbatim: escape the back quote; a backslash cannot be escaped, so a    *)
(* value with an odd run of backslashes just before a back quote, before a *)
(* newline ('.' of the token regex does not match it) or at the end has no *)
(* verbatim spelling (VerbatimSpellable).                                  *)
(***************************************************************************)
RECURSIVE Quote(_, _)
Quote(v, style) ==
    IF v = <<>> THEN <<>>
    ELSE LET c == Head(v)
         IN IF style = "verbatim"
            THEN (IF c = BQ THEN <<BSL, BQ>> ELSE <<c>>) \o Quote(Tail(v), style)
            ELSE (IF c = BSL \/ c = Delim(style) THEN <<BSL, c>> ELSE <<c>>) \o Quote(Tail(v), style)

RoundTrip(v, style) == LET l == Literal(Quote(v, style), style) IN l.kind = "value" /\ l.v = v

\* number of consecutive backslashes ending at position i
RECURSIVE RunBefore(_, _)
RunBefore(v, i) == IF i = 0 \/ v[i] # BSL THEN 0 ELSE 1 + RunBefore(v, i - 1)
VerbatimSpellable(v) ==
    /\ RunBefore(v, Len(v)) % 2 = 0
    /\ \A i \in 1..Len(v) : v[i] \in {BQ, NL} => RunBefore(v, i - 1) % 2 = 0
\* in single/double style a newline cannot follow a backslash inside the token regex; Quote never produces that
\* except for values containing a backslash followed by newline, where "\\" + newline is fine (escaped backslash first).

(***************************************************************************)
(* Numerals: digits with at most one dot between digits.                   *)
(***************************************************************************)
RECURSIVE Group4(_)
\* decimal digit values (most significant first) -> base-10^4 limbs, least significant first, stripped
Group4(ds) ==
    IF ds = <<>> THEN <<>>
    ELSE LET n == Len(ds)
             k == IF n >= 4 THEN 4 ELSE n
             low == SubSeq(ds, n - k + 1, n)
             RECURSIVE Val(_)
             Val(q) == IF q = <<>> THEN 0 ELSE Val(SubSeq(q, 1, Len(q) - 1)) * 10 + q[Len(q)]
         IN <<Val(low)>> \o Group4(SubSeq(ds, 1, n - k))
RECURSIVE StripHi(_)
StripHi(x) == IF x # <<>> /\ x[Len(x)] = 0 THEN StripHi(SubSeq(x, 1, Len(x) - 1)) ELSE x
IntLiteral(digits) == StripHi(Group4(digits))

(***************************************************************************)
(* Keywords                                                                *)
(***************************************************************************)
KeywordValue(w) == CASE w = "true" -> "TRUE" [] w = "false" -> "FALSE" [] w = "null" -> "NULL" [] OTHER -> "TEXT"
=============================================================================
