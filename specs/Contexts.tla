------------------------------ MODULE Contexts ------------------------------
(***************************************************************************)
(* yaql.language.contexts: Context, MultiContext, LinkedContext.          *)
(*                                                                         *)
(* The state is a forest of context objects.  Two descriptions of reading  *)
(* are given side by side:                                                 *)
(*   Ref*  - the property (C17): flatten a context into a sequence of      *)
(*           layers, each layer a sequence of plain storage cells; reads   *)
(*           look at layers from nearest to farthest.                      *)
(*   Impl* - what the classes do: own storage + parent walk, member fan-   *)
(*           out with a synthesised MultiContext(parents), proxying with a *)
(*           synthesised LinkedContext(parent, linked.parent) chain.       *)
(* TLC checks Impl = Ref on every reachable state (M); the histories it    *)
(* explores are replayed into the real classes (G) and recorded histories  *)
(* of the real classes are validated against the actions below (V).        *)
(***************************************************************************)
EXTENDS Naturals, Sequences, FiniteSets, TLC

CONSTANTS
    MaxCtx,        \* bound on declared (API-created) contexts
    Spellings,     \* variable-name spellings usable in Set/Del/read ("", "$", "$1", "1", "x", "$x")
    Values,        \* values that can be stored ("null" is Python None - a binding, not absence)
    FNames,        \* function names
    Tags,          \* overload identities per function name
    MaxMembers,    \* bound on MultiContext member list length
    MaxHist        \* bound on history length (G configs); M configs use a large value

Absent == "absent"     \* utils.NO_VALUE

\* Context._normalize_name: prefix "$", and "$" alone is "$1".
Norm(sp) == IF sp \in {"", "$", "$1", "1"} THEN "$1"
            ELSE IF sp \in {"x", "$x"} THEN "$x"
            ELSE IF sp \in {"y", "$y"} THEN "$y" ELSE sp
Names == {Norm(sp) : sp \in Spellings}

VARIABLES
    st,     \* [ctx, data, funcs, excl]  (see Init)
    hist,   \* history of API calls (G/V bookkeeping; hidden by VIEW in M configs)
    err,    \* outcome of the last call: "ok" | "KeyError" | "ChildError"
    obs     \* what the property says every read returns now (ObsRef(st)); replayed against the code

vars == <<st, hist, err, obs>>

(* ctx : sequence of records                                               *)
(*   cls      "C" plain | "M" multi | "L" linked                           *)
(*   parent   id of the parent object the implementation holds (0 = None)  *)
(*   members  member ids (M)                                               *)
(*   linked   id of the linked context (L)                                 *)
(*   arg      the parent_context argument given by the caller (L)          *)
(*   decl     TRUE for objects the API user created, FALSE for the ones    *)
(*            the constructors synthesise internally                       *)
Node(cls, parent, members, linked, arg, decl) ==
    [cls |-> cls, parent |-> parent, members |-> members, linked |-> linked, arg |-> arg, decl |-> decl]

EmptyData  == [n \in Names |-> Absent]
EmptyFuncs == [f \in FNames |-> {}]

Ids(s)      == 1..Len(s.ctx)
Declared(s) == {i \in Ids(s) : s.ctx[i].decl}
NDeclared(s) == Cardinality(Declared(s))

Init == /\ st = [ctx |-> <<>>, data |-> <<>>, funcs |-> <<>>, excl |-> <<>>]
        /\ hist = <<>>
        /\ err = "ok"
        /\ obs = <<>>

-----------------------------------------------------------------------------
(* Construction, as the constructors do it (including synthesised objects) *)

AppendNode(s, node) ==
    [ctx   |-> Append(s.ctx, node),
     data  |-> Append(s.data, EmptyData),
     funcs |-> Append(s.funcs, EmptyFuncs),
     excl  |-> Append(s.excl, {})]

RECURSIVE MkMulti(_, _, _)
\* MultiContext.__init__: parents = non-null parents of the members;
\* none -> no parent, one -> that parent, several -> MultiContext(parents).
MkMulti(s, ms, decl) ==
    LET ps == SelectSeq([i \in 1..Len(ms) |-> s.ctx[ms[i]].parent], LAMBDA p : p # 0)
    IN IF Len(ps) = 0 THEN AppendNode(s, Node("M", 0, ms, 0, 0, decl))
       ELSE IF Len(ps) = 1 THEN AppendNode(s, Node("M", ps[1], ms, 0, 0, decl))
       ELSE LET s2 == MkMulti(s, ps, FALSE)
            IN AppendNode(s2, Node("M", Len(s2.ctx), ms, 0, 0, decl))

RECURSIVE MkLinked(_, _, _, _)
\* LinkedContext.__init__: if linked has a parent, own parent is
\* LinkedContext(parent_context, linked.parent), else parent_context.
MkLinked(s, p, l, decl) ==
    IF s.ctx[l].parent # 0
    THEN LET s2 == MkLinked(s, p, s.ctx[l].parent, FALSE)
         IN AppendNode(s2, Node("L", Len(s2.ctx), <<>>, l, p, decl))
    ELSE AppendNode(s, Node("L", p, <<>>, l, p, decl))

-----------------------------------------------------------------------------
(* Reference: flattened layers                                             *)

RECURSIVE MergeLayers(_)
\* layer-wise concatenation of several layer sequences (members in order)
MergeLayers(lss) ==
    IF \A i \in 1..Len(lss) : lss[i] = <<>> THEN <<>>
    ELSE LET heads == [i \in 1..Len(lss) |-> IF lss[i] = <<>> THEN <<>> ELSE Head(lss[i])]
             tails == [i \in 1..Len(lss) |-> IF lss[i] = <<>> THEN <<>> ELSE Tail(lss[i])]
             RECURSIVE Cat(_)
             Cat(q) == IF q = <<>> THEN <<>> ELSE Head(q) \o Cat(Tail(q))
         IN <<Cat(heads)>> \o MergeLayers(tails)

RECURSIVE RefLayers(_, _)
RefLayers(s, c) ==
    IF c = 0 THEN <<>>
    ELSE LET n == s.ctx[c]
         IN CASE n.cls = "C" -> <<<<c>>>> \o RefLayers(s, n.parent)
              [] n.cls = "M" -> MergeLayers([i \in 1..Len(n.members) |-> RefLayers(s, n.members[i])])
              [] n.cls = "L" -> RefLayers(s, n.linked) \o RefLayers(s, n.arg)

\* value of name n in one layer: first cell (in member order) that binds it
RECURSIVE LayerGet(_, _, _)
LayerGet(s, layer, n) ==
    IF layer = <<>> THEN Absent
    ELSE IF s.data[Head(layer)][n] # Absent THEN s.data[Head(layer)][n]
    ELSE LayerGet(s, Tail(layer), n)

RECURSIVE LayersGet(_, _, _)
LayersGet(s, layers, n) ==
    IF layers = <<>> THEN "null"
    ELSE LET v == LayerGet(s, Head(layers), n)
         IN IF v # Absent THEN v ELSE LayersGet(s, Tail(layers), n)

SeqSet(q) == {q[i] : i \in 1..Len(q)}

RefGet(s, c, n)      == LayersGet(s, RefLayers(s, c), n)
RefContains(s, c, n) == \E b \in SeqSet(Head(RefLayers(s, c))) : s.data[b][n] # Absent
RefKeys(s, c)        == {n \in Names : RefContains(s, c, n)}
LayerFuncs(s, layer, f) == UNION {s.funcs[b][f] : b \in SeqSet(layer)}
LayerExcl(s, layer, f)  == \E b \in SeqSet(layer) : f \in s.excl[b]
RefFunctions(s, c, f) == <<LayerFuncs(s, Head(RefLayers(s, c)), f), LayerExcl(s, Head(RefLayers(s, c)), f)>>

RECURSIVE CollectLayers(_, _, _, _)
\* overload sets layer by layer, nearest first, empty layers skipped, stop after an exclusive layer;
\* keep = the tags the caller's predicate lets through
CollectLayers(s, layers, f, keep) ==
    IF layers = <<>> THEN <<>>
    ELSE LET fs == LayerFuncs(s, Head(layers), f) \cap keep
             rest == IF LayerExcl(s, Head(layers), f) THEN <<>> ELSE CollectLayers(s, Tail(layers), f, keep)
         IN IF fs = {} THEN rest ELSE <<fs>> \o rest
RefCollect(s, c, f, keep) == CollectLayers(s, RefLayers(s, c), f, keep)

-----------------------------------------------------------------------------
(* Implementation: the three classes' own algorithms                      *)

RECURSIVE ImplGetData(_, _, _, _)
RECURSIVE ImplWalk(_, _, _)
\* `while ask_parent and ctx: result = ctx.get_data(name, NO_VALUE, False) ...`
ImplWalk(s, p, n) ==
    IF p = 0 THEN Absent
    ELSE LET r == ImplGetData(s, p, n, FALSE)
         IN IF r # Absent THEN r ELSE ImplWalk(s, s.ctx[p].parent, n)

ImplGetData(s, c, n, ask) ==
    LET node == s.ctx[c]
    IN CASE node.cls = "C" ->
              IF s.data[c][n] # Absent THEN s.data[c][n]
              ELSE IF ask THEN ImplWalk(s, node.parent, n) ELSE Absent
         [] node.cls = "M" ->
              LET RECURSIVE First(_)
                  First(ms) == IF ms = <<>> THEN Absent
                               ELSE LET r == ImplGetData(s, Head(ms), n, FALSE)
                                    IN IF r # Absent THEN r ELSE First(Tail(ms))
                  r == First(node.members)
              IN IF r # Absent THEN r
                 ELSE IF ask THEN ImplWalk(s, node.parent, n) ELSE Absent
         [] node.cls = "L" ->
              LET r == ImplGetData(s, node.linked, n, FALSE)
              IN IF r # Absent THEN r
                 ELSE IF ~ask \/ node.parent = 0 THEN Absent
                 ELSE ImplGetData(s, node.parent, n, TRUE)

ImplGet(s, c, n) == LET r == ImplGetData(s, c, n, TRUE) IN IF r = Absent THEN "null" ELSE r

RECURSIVE ImplContains(_, _, _)
ImplContains(s, c, n) ==
    LET node == s.ctx[c]
    IN CASE node.cls = "C" -> s.data[c][n] # Absent
         [] node.cls = "M" -> \E i \in 1..Len(node.members) : ImplContains(s, node.members[i], n)
         [] node.cls = "L" -> ImplContains(s, node.linked, n)

RECURSIVE ImplKeys(_, _)
ImplKeys(s, c) ==
    LET node == s.ctx[c]
    IN CASE node.cls = "C" -> {n \in Names : s.data[c][n] # Absent}
         [] node.cls = "M" -> UNION {ImplKeys(s, node.members[i]) : i \in 1..Len(node.members)}
         [] node.cls = "L" -> ImplKeys(s, node.linked)

RECURSIVE ImplFunctions(_, _, _, _)
ImplFunctions(s, c, f, keep) ==
    LET node == s.ctx[c]
    IN CASE node.cls = "C" -> <<s.funcs[c][f] \cap keep, f \in s.excl[c]>>
         [] node.cls = "M" ->
              <<UNION {ImplFunctions(s, node.members[i], f, keep)[1] : i \in 1..Len(node.members)},
                \E i \in 1..Len(node.members) : ImplFunctions(s, node.members[i], f, keep)[2]>>
         [] node.cls = "L" -> ImplFunctions(s, node.linked, f, keep)

RECURSIVE ImplCollect(_, _, _, _)
\* ContextBase.collect_functions
ImplCollect(s, p, f, keep) ==
    IF p = 0 THEN <<>>
    ELSE LET r == ImplFunctions(s, p, f, keep)
             rest == IF r[2] THEN <<>> ELSE ImplCollect(s, s.ctx[p].parent, f, keep)
         IN IF r[1] = {} THEN rest ELSE <<r[1]>> \o rest

-----------------------------------------------------------------------------
(* Writes: every class forwards to plain storage cells                    *)

\* the plain cell that receives writes addressed to context c
RECURSIVE WriteTarget(_, _)
WriteTarget(s, c) ==
    LET node == s.ctx[c]
    IN CASE node.cls = "C" -> c
         [] node.cls = "M" -> WriteTarget(s, node.members[1])
         [] node.cls = "L" -> WriteTarget(s, node.linked)

SetCell(s, b, n, v) == [s EXCEPT !.data[b][n] = v]

\* __delitem__: Context pops (KeyError when missing); MultiContext deletes from its
\* members in order (stops at the first KeyError, earlier deletions stay); Linked forwards.
\* Result: [s |-> state, e |-> "ok" | "KeyError"]
RECURSIVE ImplDel(_, _, _)
ImplDel(s, c, n) ==
    LET node == s.ctx[c]
    IN CASE node.cls = "C" -> IF s.data[c][n] = Absent THEN [s |-> s, e |-> "KeyError"]
                              ELSE [s |-> SetCell(s, c, n, Absent), e |-> "ok"]
         [] node.cls = "M" ->
              LET RECURSIVE Each(_, _)
                  Each(s1, ms) == IF ms = <<>> THEN [s |-> s1, e |-> "ok"]
                                  ELSE LET r == ImplDel(s1, Head(ms), n)
                                       IN IF r.e # "ok" THEN r ELSE Each(r.s, Tail(ms))
              IN Each(s, node.members)
         [] node.cls = "L" -> ImplDel(s, node.linked, n)

\* delete_function: Context discards the overload AND the name's exclusivity;
\* MultiContext applies it to every member; Linked forwards.
RECURSIVE ImplDelFn(_, _, _, _)
ImplDelFn(s, c, f, t) ==
    LET node == s.ctx[c]
    IN CASE node.cls = "C" -> [s EXCEPT !.funcs[c][f] = @ \ {t}, !.excl[c] = @ \ {f}]
         [] node.cls = "M" ->
              LET RECURSIVE Each(_, _)
                  Each(s1, ms) == IF ms = <<>> THEN s1 ELSE Each(ImplDelFn(s1, Head(ms), f, t), Tail(ms))
              IN Each(s, node.members)
         [] node.cls = "L" -> ImplDelFn(s, node.linked, f, t)

-----------------------------------------------------------------------------
(* Actions = the public API                                                *)
(* Each call is a function Do<Op>(s, args) -> [s |-> state', e |-> outcome] *)
(* (used by the trace specification too) wrapped into an action that logs.  *)

CONSTANT FixedChild

Ok(s) == [s |-> s, e |-> "ok"]

DoNewContext(s, p) == Ok(AppendNode(s, Node("C", p, <<>>, 0, 0, TRUE)))
DoNewMulti(s, ms)  == Ok(MkMulti(s, ms, TRUE))
DoNewLinked(s, p, l) == Ok(MkLinked(s, p, l, TRUE))

\* create_child_context:  Context -> type(self)(self);  MultiContext -> Context(self);
\* LinkedContext -> a plain child of the proxy (the class of the linked context when that is
\* a plain Context class).  FixedChild = FALSE models the pinned code, where a LinkedContext
\* over a Multi/Linked context cannot create a child at all.
DoChild(s, c) ==
    LET node == s.ctx[c]
        fails == ~FixedChild /\ node.cls = "L" /\ s.ctx[node.linked].cls # "C"
    IN IF fails THEN [s |-> s, e |-> "ChildError"]
       ELSE Ok(AppendNode(s, Node("C", c, <<>>, 0, 0, TRUE)))

DoSet(s, c, sp, v) == Ok(SetCell(s, WriteTarget(s, c), Norm(sp), v))
DoDel(s, c, sp)    == ImplDel(s, c, Norm(sp))
DoRegister(s, c, f, t, x) ==
    LET b == WriteTarget(s, c)
    IN Ok([s EXCEPT !.funcs[b][f] = @ \cup {t}, !.excl[b] = IF x THEN @ \cup {f} ELSE @])
DoDeleteFunction(s, c, f, t) == Ok(ImplDelFn(s, c, f, t))

Ev(op, c, ms, l, name, v, f, t, x) ==
    [op |-> op, c |-> c, ms |-> ms, l |-> l, name |-> name, v |-> v, f |-> f, t |-> t, x |-> x]

Room   == NDeclared(st) < MaxCtx /\ Len(hist) < MaxHist
Go(r, e) == /\ st' = r.s /\ err' = r.e
            /\ hist' = Append(hist, e @@ [new |-> Len(r.s.ctx)])

NewContext(p)   == Room /\ Go(DoNewContext(st, p), Ev("NewContext", p, <<>>, 0, "", "", "", "", FALSE))
NewMulti(ms)    == Room /\ Go(DoNewMulti(st, ms), Ev("NewMulti", 0, ms, 0, "", "", "", "", FALSE))
NewLinked(p, l) == Room /\ Go(DoNewLinked(st, p, l), Ev("NewLinked", p, <<>>, l, "", "", "", "", FALSE))
Child(c)        == Room /\ Go(DoChild(st, c), Ev("Child", c, <<>>, 0, "", "", "", "", FALSE))
Set(c, sp, v)   == Len(hist) < MaxHist /\ Go(DoSet(st, c, sp, v), Ev("Set", c, <<>>, 0, sp, v, "", "", FALSE))
Del(c, sp)      == Len(hist) < MaxHist /\ Go(DoDel(st, c, sp), Ev("Del", c, <<>>, 0, sp, "", "", "", FALSE))
Register(c, f, t, x) ==
    Len(hist) < MaxHist /\ Go(DoRegister(st, c, f, t, x), Ev("Register", c, <<>>, 0, "", "", f, t, x))
DeleteFunction(c, f, t) ==
    Len(hist) < MaxHist /\ Go(DoDeleteFunction(st, c, f, t), Ev("DeleteFunction", c, <<>>, 0, "", "", f, t, FALSE))

\* member lists: non-empty sequences of distinct declared contexts
MemberSeqs(D) ==
    UNION {{q \in [1..k -> D] : \A i, j \in 1..k : i # j => q[i] # q[j]} : k \in 1..MaxMembers}

Next ==
    \/ \E p \in Declared(st) \cup {0} : NewContext(p)
    \/ \E ms \in MemberSeqs(Declared(st)) : NewMulti(ms)
    \/ \E p \in Declared(st) \cup {0}, l \in Declared(st) : NewLinked(p, l)
    \/ \E c \in Declared(st) : Child(c)
    \/ \E c \in Declared(st), sp \in Spellings, v \in Values : Set(c, sp, v)
    \/ \E c \in Declared(st), sp \in Spellings : Del(c, sp)
    \/ \E c \in Declared(st), f \in FNames, t \in Tags, x \in BOOLEAN : Register(c, f, t, x)
    \/ \E c \in Declared(st), f \in FNames, t \in Tags : DeleteFunction(c, f, t)

-----------------------------------------------------------------------------
(* Observations: everything a caller can read, on every declared context   *)

Keeps == {Tags} \cup {{t} : t \in Tags}     \* predicates used with get/collect_functions

ObsRef(s) ==
    [c \in Declared(s) |->
        [get      |-> [n \in Names |-> RefGet(s, c, n)],
         has      |-> {n \in Names : RefContains(s, c, n)},
         keys     |-> RefKeys(s, c),
         funcs    |-> [f \in FNames |-> [k \in Keeps |->
                         <<LayerFuncs(s, Head(RefLayers(s, c)), f) \cap k, LayerExcl(s, Head(RefLayers(s, c)), f)>>]],
         collect  |-> [f \in FNames |-> [k \in Keeps |-> RefCollect(s, c, f, k)]]]]

ObsImpl(s) ==
    [c \in Declared(s) |->
        [get      |-> [n \in Names |-> ImplGet(s, c, n)],
         has      |-> {n \in Names : ImplContains(s, c, n)},
         keys     |-> ImplKeys(s, c),
         funcs    |-> [f \in FNames |-> [k \in Keeps |-> ImplFunctions(s, c, f, k)]],
         collect  |-> [f \in FNames |-> [k \in Keeps |-> ImplCollect(s, c, f, k)]]]]

(* C17 on the model: the classes' algorithms read what the flattened layers say. *)
ImplRefinesRef == ObsImpl(st) = ObsRef(st) /\ (hist # <<>> => obs = ObsRef(st))

(* "$", "$1", "" and "1" are one variable: implied by Norm; stated for the record. *)
OneDollar == \A sp \in Spellings \cap {"", "$", "$1", "1"} : Norm(sp) = "$1"

(* Structural sanity of the synthesised objects. *)
WellFormed ==
    \A i \in Ids(st) :
        /\ st.ctx[i].parent < i
        /\ st.ctx[i].cls = "M" => st.ctx[i].members # <<>>
        /\ st.ctx[i].cls = "L" => st.ctx[i].linked \in 1..(i-1)

(* Every declared context can create a child (holds only with FixedChild). *)
ChildAlwaysPossible == err # "ChildError"

Spec == Init /\ [][Next /\ obs' = ObsRef(st')]_vars

\* behaviours without the observation variable (fast random simulation; the reads are
\* then checked on the replayed path by Trace_Contexts)
SimSpec == Init /\ [][Next /\ UNCHANGED obs]_vars

HistView == <<st, err>>
=============================================================================
