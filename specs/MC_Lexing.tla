------------------------------ MODULE MC_Lexing ------------------------------
(* Model-checking and generation configurations for Lexing.tla (C16).        *)
EXTENDS Lexing

CONSTANTS Alphabet, MaxLen, Mode
\* Mode = "roundtrip" : state = a value v; invariants RoundTripQuoted, VerbatimIffSpellable
\* Mode = "bodies"    : state = a raw body and a style; variable lit = what the literal denotes (replayed)
\* Mode = "search"    : verbatim values vs all bodies: a value has a spelling iff VerbatimSpellable

Strings(n) == UNION {[1..k -> Alphabet] : k \in 0..n}

VARIABLES body, style, lit
vars == <<body, style, lit>>

Init ==
    IF Mode = "bodies"
    THEN /\ body \in Strings(MaxLen) /\ style \in {"single", "double", "verbatim"} /\ lit = Literal(body, style)
    ELSE /\ body \in Strings(MaxLen) /\ style = "value" /\ lit = [kind |-> "none", v |-> <<>>]
Next == UNCHANGED vars
Spec == Init /\ [][Next]_vars

\* C16 P1 for the two escaping styles: every string has a spelling that reads back
RoundTripQuoted == Mode = "roundtrip" => (RoundTrip(body, "single") /\ RoundTrip(body, "double"))
\* verbatim: the canonical spelling reads back exactly for the spellable values ...
VerbatimIffSpellable == Mode = "roundtrip" => (RoundTrip(body, "verbatim") = VerbatimSpellable(body))
\* ... and the others have no spelling at all (exhaustive search over bodies up to MaxLen + 3)
NoOtherSpelling ==
    Mode = "search" =>
        ((\E b \in Strings(MaxLen + 3) : LET l == Literal(b, "verbatim") IN l.kind = "value" /\ l.v = body)
            = VerbatimSpellable(body))
\* stated as the property reads (expected to FAIL: a lone backslash has no verbatim spelling)
VerbatimAlwaysSpellable == Mode = "roundtrip" => RoundTrip(body, "verbatim")
=============================================================================
