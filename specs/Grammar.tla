------------------------------ MODULE Grammar ------------------------------
(***************************************************************************)
(* The operator table of a yaql engine and the expression tree it dictates *)
(* (C02, and the accept/reject fidelity part of C03).                      *)
(*                                                                         *)
(* Table: a sequence of entries; <<>> separates precedence groups (earlier *)
(* = tighter); <<sym, type>> with type in                                  *)
(*   "pre" prefix unary, "suf" suffix unary, "binl"/"binr" binary left /   *)
(*   right associative, "nvp" the name-value-pair operator (no precedence) *)
(* InsertOperator is the list surgery of YaqlFactory.insert_operator,      *)
(* Levels the numbering of _build_operator_table.                          *)
(*                                                                         *)
(* Parse is a precedence-climbing machine driven only by the table; the    *)
(* declarative reading of the property (Yield, Laws) is checked on every   *)
(* tree it produces.                                                       *)
(***************************************************************************)
EXTENDS Integers, Sequences, FiniteSets, TLC

(* ---- operator table ------------------------------------------------------ *)
IsSep(e) == e = <<>>
BinTypes == {"binl", "binr"}
UnTypes  == {"pre", "suf"}

Insert(s, i, x) == SubSeq(s, 1, i - 1) \o <<x>> \o SubSeq(s, i, Len(s))      \* list.insert at 1-based index i

\* first index >= i that is a separator (resp. an operator entry), or Len+1
RECURSIVE SkipEntries(_, _), SkipSeps(_, _)
SkipEntries(ops, i) == IF i <= Len(ops) /\ ~IsSep(ops[i]) THEN SkipEntries(ops, i + 1) ELSE i
SkipSeps(ops, i)    == IF i <= Len(ops) /\ IsSep(ops[i]) THEN SkipSeps(ops, i + 1) ELSE i

\* insert_operator(existing, existing_binary, new, type, create_group); existing = "" means None.
\* Result [ok |-> FALSE] when the existing operator is not found (ValueError).
InsertOperator(ops, existing, existingBinary, new, type, createGroup) ==
    LET found == {i \in 1..Len(ops) : ~IsSep(ops[i]) /\ ops[i][1] = existing /\
                                      (IF existingBinary THEN ops[i][2] \in BinTypes ELSE ops[i][2] \in UnTypes)}
        first == CHOOSE i \in found : \A j \in found : i <= j
        pos0  == IF existing = "" THEN 1 ELSE SkipEntries(ops, first)      \* end of that group
    IN IF existing # "" /\ found = {} THEN [ok |-> FALSE, ops |-> ops]
       ELSE IF ~createGroup THEN [ok |-> TRUE, ops |-> Insert(ops, pos0, <<new, type>>)]
       ELSE IF pos0 = Len(ops) + 1 THEN [ok |-> TRUE, ops |-> ops \o <<<<>>, <<new, type>>>>]
       ELSE LET p == SkipSeps(ops, pos0)
            IN [ok |-> TRUE, ops |-> Insert(Insert(ops, p, <<>>), p, <<new, type>>)]

\* group number of entry i (1 + number of separators before it)
Group(ops, i) == 1 + Cardinality({j \in 1..(i - 1) : IsSep(ops[j])})
\* pseudo entry <<"()", "deleg">>: the engine was created with allow_delegates (parser.py p_value_call: value '(' args ')')
Entries(ops) == {i \in 1..Len(ops) : ~IsSep(ops[i]) /\ ops[i][2] \notin {"nvp", "deleg"}}
Delegates(ops) == \E i \in 1..Len(ops) : ops[i] = <<"()", "deleg">>
Syms(ops) == {ops[i][1] : i \in Entries(ops)}

\* _build_operator_table raises InvalidOperatorTableException for a symbol with two unary or two binary roles
ValidTable(ops) ==
    /\ \A i, j \in Entries(ops) : (i # j /\ ops[i][1] = ops[j][1]) =>
            ~(ops[i][2] \in UnTypes /\ ops[j][2] \in UnTypes) /\ ~(ops[i][2] \in BinTypes /\ ops[j][2] \in BinTypes)
    /\ Cardinality({i \in 1..Len(ops) : ~IsSep(ops[i]) /\ ops[i][2] = "nvp"}) <= 1

\* the property's side condition: a group is binary of one associativity with optional prefix operators, or only suffix operators
Homogeneous(ops) ==
    \A i, j \in Entries(ops) : Group(ops, i) = Group(ops, j) =>
        /\ ~(ops[i][2] = "binl" /\ ops[j][2] = "binr")
        /\ (ops[i][2] = "suf" => ops[j][2] = "suf")

HasRole(ops, sym, types) == \E i \in Entries(ops) : ops[i][1] = sym /\ ops[i][2] \in types
RoleIdx(ops, sym, types) == CHOOSE i \in Entries(ops) : ops[i][1] = sym /\ ops[i][2] \in types
BinLevel(ops, sym)  == Group(ops, RoleIdx(ops, sym, BinTypes))
BinRight(ops, sym)  == ops[RoleIdx(ops, sym, BinTypes)][2] = "binr"
PreLevel(ops, sym)  == Group(ops, RoleIdx(ops, sym, {"pre"}))
SufLevel(ops, sym)  == Group(ops, RoleIdx(ops, sym, {"suf"}))
IsBin(ops, t) == HasRole(ops, t, BinTypes) /\ t \notin {"[]", "{}"}
IsPre(ops, t) == HasRole(ops, t, {"pre"})
IsSuf(ops, t) == HasRole(ops, t, {"suf"})
IndexLevel(ops) == IF HasRole(ops, "[]", BinTypes) THEN BinLevel(ops, "[]") ELSE 0      \* 0: indexing not available

(* ---- tokens and trees ------------------------------------------------------ *)
\* tokens: atoms "a" "b" "c" "d", operator symbols of the table, "(" ")" "[" "]" "," and the FUNC token "f("
Atoms == {"a", "b", "c", "d"}
Top == 1000     \* no limit

\* trees:  <<"atom", x>>  <<"par", T>>  <<"bin", op, L, R>>  <<"pre", op, T>>  <<"suf", op, T>>
\*         <<"idx", T, args>>  <<"call", args>>  <<"list", args>>  <<"map", args>>  <<"dcall", T, args>> (a value called)
\*         args: sequence of items - trees, <<"empty">> (omitted positional argument) and <<"nv", K, V>> (named argument)
Res(ok, t, p) == [ok |-> ok, t |-> t, p |-> p]
Fail(p) == Res(FALSE, <<"err">>, p)
Tok(toks, p) == IF p <= Len(toks) THEN toks[p] ELSE "$end"

RECURSIVE ParseExpr(_, _, _, _), ParsePrimary(_, _, _), ParseLoop(_, _, _, _, _), ArgItems(_, _, _, _, _, _)

\* the name-value-pair symbol of the table ("" when the table has none: the legacy table)
NvpSym(ops) == IF \E i \in 1..Len(ops) : ~IsSep(ops[i]) /\ ops[i][2] = "nvp"
               THEN ops[CHOOSE i \in 1..Len(ops) : ~IsSep(ops[i]) /\ ops[i][2] = "nvp"][1] ELSE ""
MapAvailable(ops) == HasRole(ops, "{}", BinTypes)

\* argument lists (parser.py p_args / p_arg_list / p_incomplete_arg_list / p_named_arg_list):
\*   args  : (slot ",")* value  |  named ("," named)*  |  (slot ",")* value "," [","] named ("," named)*  |  nothing
\*   slot  : value | nothing (an omitted positional argument, NO_VALUE)
\*   named : value nvp value
\* i.e. positional slots may be empty except the last one; exactly one further empty slot may separate the positional part
\* from the named part; named arguments come last and are never empty.
\* items:  tree | <<"empty">> | <<"nv", K, V>>
Empty == <<"empty">>
RECURSIVE TrailingEmpties(_)
TrailingEmpties(acc) == IF acc # <<>> /\ acc[Len(acc)] = Empty THEN 1 + TrailingEmpties(SubSeq(acc, 1, Len(acc) - 1)) ELSE 0
NamedMayFollow(acc) == acc = <<>> \/ TrailingEmpties(acc) = 0 \/ (TrailingEmpties(acc) = 1 /\ Len(acc) >= 2)

\* an item is expected at p
ArgItems(ops, toks, p, close, acc, named) ==
    IF Tok(toks, p) = "," /\ ~named THEN ArgItems(ops, toks, p + 1, close, Append(acc, Empty), FALSE)
    ELSE LET e == ParseExpr(ops, toks, p, Top)
         IN IF ~e.ok THEN e
            ELSE IF NvpSym(ops) # "" /\ Tok(toks, e.p) = NvpSym(ops) THEN
                 LET v == ParseExpr(ops, toks, e.p + 1, Top)
                     acc2 == Append(acc, <<"nv", e.t, v.t>>)
                 IN IF ~v.ok THEN v
                    ELSE IF ~named /\ ~NamedMayFollow(acc) THEN Fail(e.p)
                    ELSE IF Tok(toks, v.p) = "," THEN ArgItems(ops, toks, v.p + 1, close, acc2, TRUE)
                    ELSE IF Tok(toks, v.p) = close THEN Res(TRUE, acc2, v.p + 1)
                    ELSE Fail(v.p)
            ELSE IF named THEN Fail(e.p)
            ELSE IF Tok(toks, e.p) = "," THEN ArgItems(ops, toks, e.p + 1, close, Append(acc, e.t), FALSE)
            ELSE IF Tok(toks, e.p) = close THEN Res(TRUE, Append(acc, e.t), e.p + 1)
            ELSE Fail(e.p)

ParseArgs(ops, toks, p, close, acc) ==
    IF Tok(toks, p) = close THEN Res(TRUE, <<>>, p + 1) ELSE ArgItems(ops, toks, p, close, <<>>, FALSE)

ParsePrimary(ops, toks, p) ==
    LET t == Tok(toks, p)
    IN IF t \in Atoms THEN Res(TRUE, <<"atom", t>>, p + 1)
       ELSE IF t = "(" THEN
            LET e == ParseExpr(ops, toks, p + 1, Top)
            IN IF e.ok /\ Tok(toks, e.p) = ")" THEN Res(TRUE, <<"par", e.t>>, e.p + 1) ELSE Fail(IF e.ok THEN e.p ELSE e.p)
       ELSE IF t = "f(" THEN
            LET a == ParseArgs(ops, toks, p + 1, ")", <<>>) IN IF a.ok THEN Res(TRUE, <<"call", a.t>>, a.p) ELSE a
       ELSE IF t = "[" /\ IndexLevel(ops) # 0 THEN
            LET a == ParseArgs(ops, toks, p + 1, "]", <<>>) IN IF a.ok THEN Res(TRUE, <<"list", a.t>>, a.p) ELSE a
       ELSE IF t = "{" /\ MapAvailable(ops) THEN
            LET a == ParseArgs(ops, toks, p + 1, "}", <<>>) IN IF a.ok THEN Res(TRUE, <<"map", a.t>>, a.p) ELSE a
       ELSE IF IsPre(ops, t) THEN
            \* a prefix operator takes the tightest operand its group allows: everything binding tighter than its
            \* level, and right-associative operators of its own level
            LET e == ParseExpr(ops, toks, p + 1, PreLevel(ops, t))
            IN IF e.ok THEN Res(TRUE, <<"pre", t, e.t>>, e.p) ELSE e
       ELSE Fail(p)

\* absorb operators while they bind tighter than `limit` (or equally and to the right)
ParseLoop(ops, toks, left, p, limit) ==
    LET t == Tok(toks, p)
    IN IF IsBin(ops, t) /\ (BinLevel(ops, t) < limit \/ (BinLevel(ops, t) = limit /\ BinRight(ops, t))) THEN
            LET r == ParseExpr(ops, toks, p + 1, BinLevel(ops, t))
            IN IF r.ok THEN ParseLoop(ops, toks, <<"bin", t, left, r.t>>, r.p, limit) ELSE r
       ELSE IF IsSuf(ops, t) /\ SufLevel(ops, t) <= limit /\ ~(IsBin(ops, t)) THEN
            ParseLoop(ops, toks, <<"suf", t, left>>, p + 1, limit)
       ELSE IF t = "[" /\ IndexLevel(ops) # 0 /\ IndexLevel(ops) < limit THEN
            LET a == ParseArgs(ops, toks, p + 1, "]", <<>>)
            IN IF a.ok THEN ParseLoop(ops, toks, <<"idx", left, a.t>>, a.p, limit) ELSE a
       ELSE IF t = "(" /\ Delegates(ops) /\ limit = Top THEN
            \* calling a value: the parenthesis has no precedence of its own, every pending operator is reduced first, so the
            \* callee is the whole expression parsed so far (a + b (c) calls a + b)
            LET a == ParseArgs(ops, toks, p + 1, ")", <<>>)
            IN IF a.ok THEN ParseLoop(ops, toks, <<"dcall", left, a.t>>, a.p, limit) ELSE a
       ELSE Res(TRUE, left, p)

ParseExpr(ops, toks, p, limit) ==
    LET l == ParsePrimary(ops, toks, p)
    IN IF l.ok THEN ParseLoop(ops, toks, l.t, l.p, limit) ELSE l

\* whole statement: [ok, t] ; not ok = grammar error
Parse(ops, toks) ==
    LET e == ParseExpr(ops, toks, 1, Top)
    IN IF e.ok /\ e.p = Len(toks) + 1 THEN e ELSE Fail(IF e.ok THEN e.p ELSE e.p)

(* ---- the declarative reading (what C02 states) ----------------------------- *)
RECURSIVE Yield(_), YieldArgs(_)
YieldArgs(as) == IF as = <<>> THEN <<>>
                 ELSE Yield(Head(as)) \o (IF Len(as) > 1 THEN <<",">> ELSE <<>>) \o YieldArgs(Tail(as))
Yield(t) ==
    CASE t[1] = "atom" -> <<t[2]>>
      [] t[1] = "empty" -> <<>>
      [] t[1] = "nv"   -> Yield(t[2]) \o <<"=>">> \o Yield(t[3])
      [] t[1] = "map"  -> <<"{">> \o YieldArgs(t[2]) \o <<"}">>
      [] t[1] = "dcall" -> Yield(t[2]) \o <<"(">> \o YieldArgs(t[3]) \o <<")">>
      [] t[1] = "par"  -> <<"(">> \o Yield(t[2]) \o <<")">>
      [] t[1] = "bin"  -> Yield(t[3]) \o <<t[2]>> \o Yield(t[4])
      [] t[1] = "pre"  -> <<t[2]>> \o Yield(t[3])
      [] t[1] = "suf"  -> Yield(t[3]) \o <<t[2]>>
      [] t[1] = "idx"  -> Yield(t[2]) \o <<"[">> \o YieldArgs(t[3]) \o <<"]">>
      [] t[1] = "call" -> <<"f(">> \o YieldArgs(t[2]) \o <<")">>
      [] t[1] = "list" -> <<"[">> \o YieldArgs(t[2]) \o <<"]">>

\* how tightly the top operator of an (unparenthesised) subtree binds, and whether it may sit on the left/right
\* of an operator of level lv with associativity right?
LeftOk(ops, t, lv, right) ==
    CASE t[1] = "bin" -> BinLevel(ops, t[2]) < lv \/ (BinLevel(ops, t[2]) = lv /\ ~right)
      [] t[1] = "pre" -> TRUE          \* a prefix operator on the left already closed its operand (checked at the pre node)
      [] OTHER -> TRUE
RightOk(ops, t, lv, right) ==
    CASE t[1] = "dcall" -> FALSE       \* a called value is never the right operand of anything without parentheses
      [] t[1] = "bin" -> BinLevel(ops, t[2]) < lv \/ (BinLevel(ops, t[2]) = lv /\ right)
      [] t[1] = "suf" -> SufLevel(ops, t[2]) <= lv
      [] OTHER -> TRUE

RECURSIVE Laws(_, _), LawsArgs(_, _)
LawsArgs(ops, as) == \A i \in 1..Len(as) : Laws(ops, as[i])
Laws(ops, t) ==
    CASE t[1] = "atom" -> TRUE
      [] t[1] = "empty" -> TRUE
      [] t[1] = "nv"   -> Laws(ops, t[2]) /\ Laws(ops, t[3])            \* both sides are complete expressions
      [] t[1] = "map"  -> LawsArgs(ops, t[2])
      [] t[1] = "dcall" -> Laws(ops, t[2]) /\ LawsArgs(ops, t[3])
      [] t[1] = "par"  -> Laws(ops, t[2])                                   \* parentheses override everything
      [] t[1] = "bin"  -> /\ LeftOk(ops, t[3], BinLevel(ops, t[2]), BinRight(ops, t[2]))
                          /\ RightOk(ops, t[4], BinLevel(ops, t[2]), BinRight(ops, t[2]))
                          /\ Laws(ops, t[3]) /\ Laws(ops, t[4])
      [] t[1] = "pre"  -> /\ (t[3][1] = "bin" => (BinLevel(ops, t[3][2]) < PreLevel(ops, t[2])
                                                   \/ (BinLevel(ops, t[3][2]) = PreLevel(ops, t[2]) /\ BinRight(ops, t[3][2]))))
                          /\ (t[3][1] = "suf" => SufLevel(ops, t[3][2]) <= PreLevel(ops, t[2]))
                          /\ t[3][1] # "dcall"
                          /\ Laws(ops, t[3])
      [] t[1] = "suf"  -> /\ (t[3][1] = "bin" => BinLevel(ops, t[3][2]) < SufLevel(ops, t[2]))
                          /\ (t[3][1] = "pre" => PreLevel(ops, t[3][2]) < SufLevel(ops, t[2]))
                          /\ Laws(ops, t[3])
      [] t[1] = "idx"  -> /\ (t[2][1] = "bin" => BinLevel(ops, t[2][2]) < IndexLevel(ops))
                          /\ (t[2][1] = "pre" => PreLevel(ops, t[2][2]) < IndexLevel(ops))
                          /\ Laws(ops, t[2]) /\ LawsArgs(ops, t[3])
      [] t[1] = "call" -> LawsArgs(ops, t[2])
      [] t[1] = "list" -> LawsArgs(ops, t[2])

(* ---- the tables the property names ------------------------------------------ *)
Standard == <<
    <<"=>", "nvp">>,
    <<".", "binl">>, <<"?.", "binl">>, <<>>,
    <<"[]", "binl">>, <<"{}", "binl">>, <<>>,
    <<"+", "pre">>, <<"-", "pre">>, <<>>,
    <<"=~", "binl">>, <<"!~", "binl">>, <<>>,
    <<"*", "binl">>, <<"/", "binl">>, <<"mod", "binl">>, <<>>,
    <<"+", "binl">>, <<"-", "binl">>, <<>>,
    <<">", "binl">>, <<"<", "binl">>, <<">=", "binl">>, <<"<=", "binl">>, <<"!=", "binl">>, <<"=", "binl">>, <<"in", "binl">>, <<>>,
    <<"not", "pre">>, <<>>,
    <<"and", "binl">>, <<>>,
    <<"or", "binl">>, <<>>,
    <<"->", "binr">> >>

\* yaql.legacy.YaqlFactory: no keyword operator; "=>" becomes a binary operator in a new group after "or"
Legacy == InsertOperator(Tail(Standard), "or", TRUE, "=>", "binl", TRUE).ops
=============================================================================
