---------------------------- MODULE Trace_Streams ----------------------------
(***************************************************************************)
(* C14: judges recorded runs of streaming pipelines over the endless       *)
(* counted source against the pull-based transducer model Streams.tla.     *)
(* Events: {id, stages: [{f, args}], demand: {f, args}, fuel,              *)
(*          pulls, outcome, res, ticks: [[probe id, count]..]}             *)
(*   the real run: pulls from the source, outcome "value" | "error" |      *)
(*   "overrun" | "timeout", finalised result, lambda applications per probe *)
(* Clauses: terminates; pulls <= model pulls + 1; per probe applications   *)
(* <= model applications + 1; the result equals the model's.               *)
(* A pipeline whose demand the model cannot satisfy within `fuel` source   *)
(* elements is not bounded by a demand and is not judged.                  *)
(***************************************************************************)
EXTENDS Streams, Json, IOUtils

TraceLog == ndJsonDeserialize(IOEnv.TRACE_FILE)
VARIABLE pos

Count(log, i) == Len(SelectSeq(log, LAMBDA t : t[1] = i))

Verdict(e) ==
    LET m == RunPipeline(e.stages, e.demand, e.fuel)
    IN IF m.tag = "dry" THEN "skip:unbounded"
       ELSE IF m.tag = "unmodelled" THEN "skip:unmodelled"
       ELSE IF e.outcome \in {"overrun", "timeout"} THEN "terminates"
       ELSE IF e.pulls > m.pulls + 1 THEN "source-pull-bound"
       ELSE IF \E j \in 1..Len(e.ticks) : e.ticks[j][2] > Count(m.log, e.ticks[j][1]) + 1 THEN "lambda-application-bound"
       ELSE IF m.tag = "err" THEN (IF e.outcome = "error" THEN "ok" ELSE "model-error-real-value")
       ELSE IF e.outcome = "error" THEN "real-error-model-value"
       ELSE IF ~VEq(m.v, e.res) THEN "value"
       ELSE "ok"

Init == pos = 1
Next == /\ pos <= Len(TraceLog)
        /\ pos' = pos + 1
        /\ LET v == Verdict(TraceLog[pos])
           IN IF v = "ok" THEN TRUE
              ELSE IF v \in {"skip:unbounded", "skip:unmodelled"} THEN PrintT(<<"SKIP", TraceLog[pos].id, v>>)
              ELSE PrintT(<<"REJECT", TraceLog[pos].id, v>>)
TraceSpec == Init /\ [][Next]_pos
TraceAccepted == TLCGet("stats").diameter - 1 = Len(TraceLog)
=============================================================================
