---------------------------- MODULE Trace_Limits ----------------------------
(* Judges recorded evaluations against the bounds Limits.tla establishes for the limiter:        *)
(* pulls <= N + 1 (PullBound), nothing wider than N delivered/returned (DeliveredBound).         *)
EXTENDS Integers, Sequences, TLC, Json, IOUtils

(***************************************************************************)
(* Verdicts for recorded evaluations (Trace_Limits).                       *)
(*  sweep:  {fn, param, n, pulls, outcome, width}                          *)
(*     outcome "value" | "TooLarge" | "NoMatch" | "error:<cls>" |          *)
(*             "overrun" (the source was pulled past n + slack) | "timeout"*)
(*     width   largest collection at any depth of the result (value only)  *)
(*  quota:  {q, argsizes: [..], retsize, outcome}                          *)
(*  repeat: {q, need, outcome}   need = len * count * unit size            *)
(***************************************************************************)
SweepVerdict(e) ==
    IF e.outcome \in {"overrun", "timeout"} THEN "terminates"
    ELSE IF e.n >= 0 /\ e.pulls > e.n + 1 THEN "pull-bound"
    ELSE IF e.outcome = "value" /\ e.n >= 0 /\ e.width > e.n THEN "result-width"
    ELSE "ok"

QuotaVerdict(e) ==
    IF \E i \in 1..Len(e.argsizes) : e.argsizes[i] > e.q THEN "oversized-value-passed-on"
    ELSE IF e.outcome = "value" /\ e.retsize > e.q THEN "oversized-value-returned"
    ELSE IF e.outcome \in {"timeout", "error:MemoryError"} THEN "refuses-before-allocating"
    ELSE "ok"

RepeatVerdict(e) ==
    IF e.need > 0 /\ e.outcome # "MemoryQuota" THEN "repetition-refused-before-allocating"
    ELSE IF e.need = 0 /\ e.outcome # "value" THEN "repetition-within-quota-rejected"
    ELSE "ok"
TraceLog == ndJsonDeserialize(IOEnv.TRACE_FILE)
VARIABLE pos
Verdict(e) == CASE e.act = "sweep" -> SweepVerdict(e) [] e.act = "quota" -> QuotaVerdict(e) [] e.act = "repeat" -> RepeatVerdict(e)
TInit == pos = 1
TNext == /\ pos <= Len(TraceLog)
         /\ pos' = pos + 1
         /\ LET v == Verdict(TraceLog[pos])
            IN IF v = "ok" THEN TRUE ELSE PrintT(<<"REJECT", TraceLog[pos].id, v>>)
TraceSpec == TInit /\ [][TNext]_pos
TraceAccepted == TLCGet("stats").diameter - 1 = Len(TraceLog)
=============================================================================
