-------------------------- MODULE Trace_DateTime --------------------------
(* Validates recorded evaluations of yaql's date/time functions against DateTime.tla. *)
EXTENDS DateTime, Json, IOUtils
TraceLog == ndJsonDeserialize(IOEnv.TRACE_FILE)
VARIABLE pos
Init == pos = 1
Next == /\ pos <= Len(TraceLog)
        /\ pos' = pos + 1
        /\ LET v == Verdict(TraceLog[pos])
           IN IF v = "ok" THEN TRUE ELSE PrintT(<<"REJECT", TraceLog[pos].id, v>>)
TraceSpec == Init /\ [][Next]_pos
TraceAccepted == TLCGet("stats").diameter - 1 = Len(TraceLog)
Laws == AlgebraLaws
=============================================================================
