----------------------------- MODULE MC_Grammar -----------------------------
(* Generation / model-checking configuration for Grammar.tla (C02, C03).      *)
EXTENDS Grammar

CONSTANTS
    Base,        \* "standard" | "legacy"
    InsertSeqs,  \* sequence of insert_operator call sequences; a call is <<existing, existingBinary, new, type, createGroup>>
    BinReps,     \* binary operator symbols used to build expressions (intersected with the table)
    PreReps,     \* prefix operator symbols used
    SufReps,     \* suffix operator symbols used
    MaxBin,      \* number of binary operators in a sequence
    MaxPre,      \* total number of prefix operators placed
    Kinds,       \* operand kinds: subset of {"atom", "par", "call", "idx", "list"}
    Mode         \* "trees" (C02) | "soup" (C03: arbitrary token sequences) | "args" (argument lists: every sequence over
                 \* operands, the comma, the name-value operator and BinReps of length <= MaxBin inside every bracket form)

BaseTable == IF Base = "legacy" THEN Legacy ELSE IF Base = "delegates" THEN <<<<"()", "deleg">>>> \o Standard ELSE Standard

RECURSIVE ApplyCalls(_, _)
\* [st |-> "ok" | "notfound", ops]
ApplyCalls(ops, calls) ==
    IF calls = <<>> THEN [st |-> "ok", ops |-> ops]
    ELSE LET c == Head(calls)
             r == InsertOperator(ops, c[1], c[2], c[3], c[4], c[5])
         IN IF ~r.ok THEN [st |-> "notfound", ops |-> ops] ELSE ApplyCalls(r.ops, Tail(calls))

TableOf(i) == ApplyCalls(BaseTable, InsertSeqs[i])
Status(i) == LET t == TableOf(i)
             IN IF t.st # "ok" THEN "notfound"
                ELSE IF ~ValidTable(t.ops) THEN "invalid"
                ELSE IF ~Homogeneous(t.ops) THEN "nonhomogeneous" ELSE "ok"

\* ---- expression sequences:  slot (binop slot)^k ; a slot = prefix operators, an operand, suffix operators
PreSeqs(P, n) == UNION {[1..m -> P] : m \in 0..n}
Operand(kind, op) ==
    CASE kind = "atom" -> <<"a">>
      [] kind = "par"  -> <<"(", "b", op, "c", ")">>
      [] kind = "call" -> <<"f(", "b", ",", "c", op, "d", ")">>
      [] kind = "idx"  -> <<"a", "[", "b", op, "c", "]">>
      [] kind = "list" -> <<"[", "b", op, "c", ",", "d", "]">>

RECURSIVE Flatten(_, _, _, _, _)
\* slots i..n
Flatten(i, n, bops, pre, opnd) ==
    IF i > n THEN <<>>
    ELSE pre[i] \o opnd[i] \o (IF i < n THEN <<bops[i]>> ELSE <<>>) \o Flatten(i + 1, n, bops, pre, opnd)

Sequences(ops) ==
    LET B == BinReps \cap {s \in Syms(ops) : IsBin(ops, s)}
        P == PreReps \cap {s \in Syms(ops) : IsPre(ops, s)}
        S == SufReps \cap {s \in Syms(ops) : IsSuf(ops, s)}
        inner == IF B = {} THEN "," ELSE CHOOSE b \in B : \A c \in B : BinLevel(ops, b) >= BinLevel(ops, c)   \* a loose operator inside operands
    IN UNION {
         { Flatten(1, k + 1, bops, pre,
                   [j \in 1..(k + 1) |-> Operand(kinds[j], inner) \o suf[j]]) :
             bops \in [1..k -> B],
             pre \in {q \in [1..(k + 1) -> PreSeqs(P, MaxPre)] :
                         LET RECURSIVE Tot(_)
                             Tot(j) == IF j = 0 THEN 0 ELSE Len(q[j]) + Tot(j - 1)
                         IN Tot(k + 1) <= MaxPre},
             kinds \in {q \in [1..(k + 1) -> Kinds] : Cardinality({j \in 1..(k + 1) : q[j] # "atom"}) <= 1},
             suf \in {q \in [1..(k + 1) -> {<<>>} \cup {<<s>> : s \in S}] :
                         Cardinality({j \in 1..(k + 1) : q[j] # <<>>}) <= 1} }
         : k \in 0..MaxBin }

\* C03: arbitrary short token sequences over the whole token alphabet of the table
SoupTokens(ops) == Atoms \cup {"(", ")", "[", "]", ",", "f(", "{", "}", "=>"} \cup (Syms(ops) \ {"[]", "{}"})
Soups(ops) == UNION {[1..k -> SoupTokens(ops)] : k \in 0..MaxBin}

\* argument lists in every bracket form
ArgAlphabet(ops) == {"a", "b", ",", "=>"} \cup (BinReps \cap Syms(ops)) \cup (PreReps \cap Syms(ops))
Brackets == IF Delegates(BaseTable) THEN { <<<<"c", "(">>, <<")">>>>, <<<<"c", "+", "d", "(">>, <<")">>>>, <<<<"-", "c", "(">>, <<")", "(", ")">>>>,
                                            <<<<"f(", "c", "(">>, <<")", ")">>>>, <<<<"c", "[", "d", "]", "(">>, <<")", ".", "f(", ")">>>> } ELSE { <<<<"f(">>, <<")">>>>, <<<<"[">>, <<"]">>>>, <<<<"c", "[">>, <<"]">>>>, <<<<"{">>, <<"}">>>>, <<<<"c", ".", "f(">>, <<")">>>>,
              <<<<"d", "+", "f(">>, <<")", "[", "c", "]">>>> }
ArgSeqs(ops) == UNION { { br[1] \o s \o br[2] : s \in [1..k -> ArgAlphabet(ops)], br \in Brackets } : k \in 0..MaxBin }

VARIABLES tid, toks, out
vars == <<tid, toks, out>>

NoTree == <<"none">>
Init ==
    /\ tid \in 1..Len(InsertSeqs)
    /\ IF Status(tid) # "ok"
       THEN toks = <<>> /\ out = [st |-> Status(tid), ok |-> FALSE, t |-> NoTree]
       ELSE LET ops == TableOf(tid).ops
            IN /\ toks \in (IF Mode = "soup" THEN Soups(ops) ELSE IF Mode = "args" THEN ArgSeqs(ops) ELSE Sequences(ops))
               /\ out = [st |-> "ok", ok |-> Parse(ops, toks).ok, t |-> IF Parse(ops, toks).ok THEN Parse(ops, toks).t ELSE NoTree]
Next == UNCHANGED vars
Spec == Init /\ [][Next]_vars

\* M: every generated operator sequence parses, and the tree is the one the declarative reading dictates
Accepts == (Mode = "trees" /\ out.st = "ok") => out.ok
YieldIsInput == (out.st = "ok" /\ out.ok) => Yield(out.t) = toks
TreeObeysTable == (out.st = "ok" /\ out.ok) => Laws(TableOf(tid).ops, out.t)
=============================================================================
