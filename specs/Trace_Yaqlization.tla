-------------------------- MODULE Trace_Yaqlization --------------------------
(* C07 P1: events recorded while applying every registered function / access form to a NOT yaqlized canary:   *)
(*   {id, fn, where, log: [names the canary saw through __getattribute__/__getitem__/__call__/__format__],     *)
(*    secret: 0|1 (the canary's secret marker appeared in the result or exception text)}                       *)
(* The only step the specification enables for a non-yaqlized operand leaves the host log unchanged, apart     *)
(* from the runtime's own type probes.                                                                         *)
EXTENDS Naturals, Sequences, FiniteSets, TLC, Json, IOUtils
RuntimeProbes == {"__class__", "__yaqlization__"}
TraceLog == ndJsonDeserialize(IOEnv.TRACE_FILE)
VARIABLE pos
Verdict(e) ==
    IF e.secret = 1 THEN "secret-leaked"
    ELSE IF \E i \in 1..Len(e.log) : e.log[i] \notin RuntimeProbes THEN "host-object-member-reached"
    ELSE "ok"
Init == pos = 1
Next == /\ pos <= Len(TraceLog)
        /\ pos' = pos + 1
        /\ LET v == Verdict(TraceLog[pos])
           IN IF v = "ok" THEN TRUE ELSE PrintT(<<"REJECT", TraceLog[pos].id, v>>)
TraceSpec == Init /\ [][Next]_pos
TraceAccepted == TLCGet("stats").diameter - 1 = Len(TraceLog)
=============================================================================
