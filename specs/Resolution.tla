----------------------------- MODULE Resolution -----------------------------
(***************************************************************************)
(* Overload resolution of one call (yaql.language.runner.call /            *)
(* choose_overload, specs.FunctionDefinition.map_args / get_delegate,      *)
(* contexts.collect_functions), written from the documented rules          *)
(* (doc/source/extending_yaql.rst) - C05, C06.                             *)
(*                                                                         *)
(* Fragment: overloads with positional parameters (typed over a small      *)
(* subtype lattice, optional default), hidden (injected) parameters in any *)
(* position, an optional *args parameter; kinds function / method /        *)
(* extension; layers of contexts with exclusivity; calls with or without   *)
(* receiver, positional arguments, skipped slots and keyword arguments.    *)
(* no_kwargs functions (an `a => b` argument reaches them as a positional   *)
(* mapping value).  Lazy parameters (type "Lazy": the argument is handed    *)
(* over unevaluated, any argument fits): all overloads that survive the    *)
(* arity filter must agree on which arguments are lazy, otherwise the call *)
(* is ambiguous before anything is evaluated.  Not in the fragment:        *)
(* **kwargs, keyword-only and constant-only parameters.                    *)
(***************************************************************************)
EXTENDS Naturals, Sequences, FiniteSets, TLC

(* ---- types and values ------------------------------------------------ *)
\* Any > A > BC > {B, C} > D ;  Int unrelated ;  Null is accepted only by a nullable (Any) parameter.
\* BC is a union type (a parameter declared with the tuple of classes (B, C), like the library's Number = (int, float)): it
\* accepts what B or C accepts, so it is less specific than either and more specific than their common ancestors.
\* E < B and V < {E, C} (a value class mixing two unrelated branches): with them "more specific" is not transitive across
\* overloads - f1(B, D) > f2(C, B) > f3(E, A) while f1 and f3 are incomparable.
Classes == {"A", "B", "C", "D", "Int", "BC", "E", "V"}
Types   == Classes \cup {"Any", "Lazy"}

Parents(c) == CASE c = "A" -> {"Any"} [] c = "B" -> {"BC"} [] c = "C" -> {"BC"} [] c = "BC" -> {"A"} [] c = "D" -> {"B", "C"}
                [] c = "E" -> {"B"} [] c = "V" -> {"E", "C"}
                [] c = "Int" -> {"Any"} [] c = "Any" -> {} [] c = "Lazy" -> {}        \* a lazy type is comparable with nothing
RECURSIVE Ancestors(_)
Ancestors(c) == Parents(c) \cup UNION {Ancestors(p) : p \in Parents(c)}
SubEq(c, t)     == c = t \/ t \in Ancestors(c)        \* issubclass
StrictSub(c, t) == c # t /\ t \in Ancestors(c)        \* PythonType.is_specialization_of

\* does a parameter of type t accept the (evaluated) value v?  v is a class name, "Null", or "Rule" - the mapping object
\* that an `a => b` argument becomes for a function that takes no keyword arguments
Accepts(t, v) == IF t = "Lazy" THEN TRUE ELSE IF v \in {"Null", "Rule"} THEN t = "Any" ELSE SubEq(v, t)

(* ---- overloads ------------------------------------------------------- *)
\* parameter: [name, ty, def]   ty = "hidden" for an injected parameter (context/engine)
\* overload : [tag, fn (callable as function), me (callable as method), params (python order), star (type or "none")]
Visible(o) == SelectSeq(o.params, LAMBDA p : p.ty # "hidden")      \* caller-visible parameters, in order

(* ---- calls ------------------------------------------------------------ *)
\* call: [recv (value or "none"), args (sequence of values or "skip"), kw (sequence of <<name, value>>)]
FullArgs0(call) == IF call.recv = "none" THEN call.args ELSE <<call.recv>> \o call.args
\* a no_kwargs overload sees the keyword-looking arguments as further positional values
CallFor(o, call) == IF o.nokw THEN [recv |-> call.recv, args |-> call.args \o [i \in 1..Len(call.kw) |-> "Rule"], kw |-> <<>>] ELSE call
FullArgs(call) == FullArgs0(call)
KwNames(call)  == {call.kw[i][1] : i \in 1..Len(call.kw)}
KwValue(call, n) == (CHOOSE i \in 1..Len(call.kw) : call.kw[i][1] = n)
KwVal(call, n) == call.kw[KwValue(call, n)][2]

(***************************************************************************)
(* Step "filter by arity, keyword names and defaults" (map_args).          *)
(* Result: "none", or a binding                                            *)
(*   [pos |-> sequence over argument positions of the parameter type bound *)
(*            there (star type for the extra ones),                        *)
(*    kw  |-> set of <<name, type>> bound by keyword,                      *)
(*    vals|-> sequence of <<type, value>> pairs to type-check, where value *)
(*            "default" stands for an omitted/skipped defaulted parameter] *)
(***************************************************************************)
NoBinding == [ok |-> FALSE, pos |-> <<>>, kw |-> {}, vals |-> <<>>, lazy |-> {}, kwok |-> FALSE]
\* an overload with a defaulted parameter (or a misdeclared one, kwbad) also carries a keyword-only parameter: declared Int (not
\* null), with a default, written `kwo` by callers (the alias under which the definition publishes it)
HasKwo(o) == o.kwbad \/ \E i \in 1..Len(o.params) : o.params[i].ty # "hidden" /\ o.params[i].def
MapArgs(o, call0) ==
    LET call == CallFor(o, call0)
        args == FullArgs(call)
        vis  == Visible(o)
        n    == Len(vis)
        names == {vis[i].name : i \in 1..n} \cup (IF HasKwo(o) THEN {"kwo"} ELSE {})
        kwgiven == "kwo" \in KwNames(call)
        given(i) == i <= Len(args) /\ args[i] # "skip"
        \* how each visible parameter gets its value
        how(i) == IF given(i) THEN (IF vis[i].name \in KwNames(call) THEN "clash" ELSE "pos")
                  ELSE IF vis[i].name \in KwNames(call) THEN "kw"
                  ELSE IF vis[i].def THEN "default" ELSE "missing"
        bad == \/ \E i \in 1..n : how(i) \in {"clash", "missing"}
               \/ KwNames(call) \ names # {}                                  \* unknown keyword, no **kwargs
               \/ Len(args) > n /\ o.star = "none"                            \* too many positional arguments
               \/ \E i \in (n+1)..Len(args) : args[i] = "skip"                \* (cases generated never skip a *args slot)
    IN IF bad THEN NoBinding
       ELSE [ok |-> TRUE, pos  |-> [i \in 1..Len(args) |-> IF i <= n THEN vis[i].ty ELSE o.star],
             kw   |-> {<<vis[i].name, vis[i].ty>> : i \in {j \in 1..n : how(j) = "kw"}}
                        \cup (IF kwgiven THEN {<<"kwo", "Int">>} ELSE {}),
             \* the keyword-only parameter's default is type-checked like any other value when the call does not pass the parameter,
             \* so an overload whose default does not fit its own declaration (o.kwbad) matches only calls that pass it
             kwok |-> ~o.kwbad \/ kwgiven,
             \* which arguments stay unevaluated: positions (given or skipped) and keywords bound to a lazy parameter
             lazy |-> {<<"p", i>> : i \in {j \in 1..n : j <= Len(args) /\ vis[j].ty = "Lazy"}}
                        \cup {<<"k", vis[i].name>> : i \in {j \in 1..n : how(j) = "kw" /\ vis[j].ty = "Lazy"}},
             vals |-> [i \in 1..Len(args) |->
                          IF i <= n THEN <<vis[i].ty, IF given(i) THEN args[i] ELSE "default">>
                          ELSE <<o.star, args[i]>>]
                      \o [j \in 1..Cardinality({k \in 1..n : how(k) = "kw"}) |->
                            LET ks == {k \in 1..n : how(k) = "kw"}
                                k == CHOOSE k \in ks : Cardinality({m \in ks : m < k}) = j - 1
                            IN <<vis[k].ty, KwVal(call, vis[k].name)>>]
                      \o (IF kwgiven THEN <<<<"Int", KwVal(call, "kwo")>>>> ELSE <<>>)]

\* Step "filter by argument types" (get_delegate's checked()): defaults always fit
TypesFit(b) == b.kwok /\ \A i \in 1..Len(b.vals) : b.vals[i][2] = "default" \/ Accepts(b.vals[i][1], b.vals[i][2])

\* binding b1 is more specific than b2 (runner._is_specialization_of)
KwType(b, n) == (CHOOSE x \in b.kw : x[1] = n)[2]
MoreSpecific(b1, b2) ==
    LET m == IF Len(b1.pos) < Len(b2.pos) THEN Len(b1.pos) ELSE Len(b2.pos)
        pairs == {<<b1.pos[i], b2.pos[i]>> : i \in 1..m}
                   \cup {<<x[2], KwType(b2, x[1])>> : x \in b1.kw}
    IN /\ \A pr \in pairs : ~StrictSub(pr[2], pr[1])
       /\ \E pr \in pairs : StrictSub(pr[1], pr[2])

(* ---- layers ------------------------------------------------------------ *)
\* layers: sequence (nearest first) of [excl: BOOLEAN, ovs: set of overloads]
KindOk(o, call) == IF call.recv = "none" THEN o.fn ELSE o.me

RECURSIVE Gather(_, _)
\* overload sets layer by layer after the kind filter; empty layers dropped; stop after an exclusive layer
Gather(layers, call) ==
    IF layers = <<>> THEN <<>>
    ELSE LET l == Head(layers)
             c == {o \in l.ovs : KindOk(o, call)}
             rest == IF l.excl THEN <<>> ELSE Gather(Tail(layers), call)
         IN IF c = {} THEN rest ELSE <<c>> \o rest

(***************************************************************************)
(* The documented rules.                                                   *)
(* outcome: [res |-> "run", tag |-> t] | [res |-> "Unknown" | "NoMatch" |  *)
(* "Ambiguous", tag |-> ""], plus evald: were the eager arguments          *)
(* evaluated (exactly once) before the verdict.                            *)
(***************************************************************************)
Out(r, t, e) == [res |-> r, tag |-> t, evald |-> e]

RECURSIVE FirstMatchingLayer(_, _)
FirstMatchingLayer(cands, call) ==
    IF cands = <<>> THEN Out("NoMatch", "", TRUE)
    ELSE LET matches == {o \in Head(cands) : MapArgs(o, call).ok /\ TypesFit(MapArgs(o, call))}
             winners == {o \in matches : \A o2 \in matches \ {o} : MoreSpecific(MapArgs(o, call), MapArgs(o2, call))}
         IN IF matches = {} THEN FirstMatchingLayer(Tail(cands), call)
            ELSE IF Cardinality(winners) = 1 THEN Out("run", (CHOOSE o \in winners : TRUE).tag, TRUE)
            ELSE Out("Ambiguous", "", TRUE)

MixedFlags(layers, call) ==
    LET gathered == Gather(layers, call)
        early(o) == MapArgs(o, call).ok /\ (call.recv = "none" \/ Accepts(MapArgs(o, call).vals[1][1], MapArgs(o, call).vals[1][2]))
    IN \/ Cardinality(UNION {{o.nokw : o \in gathered[i]} : i \in 1..Len(gathered)}) > 1
       \/ Cardinality({MapArgs(o, call).lazy : o \in {x \in UNION {gathered[i] : i \in 1..Len(gathered)} : early(x)}}) > 1

Resolve(layers, call) ==
    LET gathered == Gather(layers, call)
        \* the receiver is already a value when f is resolved, so its type is checked together with the arity
        early(o) == MapArgs(o, call).ok /\ (call.recv = "none" \/
                        Accepts(MapArgs(o, call).vals[1][1], MapArgs(o, call).vals[1][2]))
        mapped   == [i \in 1..Len(gathered) |-> {o \in gathered[i] : early(o)}]
        nonempty == SelectSeq(mapped, LAMBDA s : s # {})
        flags == UNION {{o.nokw : o \in gathered[i]} : i \in 1..Len(gathered)}
    IN IF gathered = <<>> THEN Out("Unknown", "", FALSE)
       ELSE IF Cardinality(flags) > 1 THEN Out("Ambiguous", "", FALSE)      \* overloads that disagree about keyword arguments
       ELSE IF nonempty = <<>> THEN Out("NoMatch", "", FALSE)
       \* the surviving overloads (of all layers) disagree about which arguments are lazy: nothing can be evaluated
       ELSE IF Cardinality({MapArgs(o, call).lazy : o \in UNION {mapped[i] : i \in 1..Len(mapped)}}) > 1 THEN Out("Ambiguous", "", FALSE)
       ELSE FirstMatchingLayer(nonempty, call)

(***************************************************************************)
(* The pinned implementation's single pass with a running winner, over an  *)
(* explicit enumeration order of the matches of the layer (C06).  TLC      *)
(* finds the order-dependence: see MC_Resolution / check C06.              *)
(***************************************************************************)
RECURSIVE PassFrom(_, _, _)
\* order: sequence of overloads (the matches of one layer, in enumeration order); w: current winner
PassFrom(order, w, call) ==
    IF order = <<>> THEN w.tag
    ELSE LET o == Head(order)
         IN IF MoreSpecific(MapArgs(w, call), MapArgs(o, call)) THEN PassFrom(Tail(order), w, call)
            ELSE IF ~MoreSpecific(MapArgs(o, call), MapArgs(w, call)) THEN "ambiguous"
            ELSE PassFrom(Tail(order), o, call)
SinglePass(order, call) == IF order = <<>> THEN "nomatch" ELSE PassFrom(Tail(order), Head(order), call)

\* The repaired selection over the same ordered enumeration: collect, then pick the dominating match
CollectThenPick(order, call) ==
    LET ms == {order[i] : i \in 1..Len(order)}
        ws == {o \in ms : \A o2 \in ms \ {o} : MoreSpecific(MapArgs(o, call), MapArgs(o2, call))}
    IN IF ms = {} THEN "nomatch" ELSE IF Cardinality(ws) = 1 THEN (CHOOSE o \in ws : TRUE).tag ELSE "ambiguous"

Perms(S) == {q \in [1..Cardinality(S) -> S] : \A i, j \in 1..Cardinality(S) : i # j => q[i] # q[j]}
=============================================================================
