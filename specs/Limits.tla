------------------------------- MODULE Limits -------------------------------
(***************************************************************************)
(* yaql.limitIterators = N and yaql.memoryQuota = Q (C08).                 *)
(*                                                                         *)
(* The limiter (utils.limit_iterable) stands between a lazy source and its *)
(* consumer.  Consumers are arbitrary: they may keep pulling for ever.     *)
(* Model: source with a pull counter, limiter with a delivered counter.    *)
(***************************************************************************)
EXTENDS Integers, Sequences, TLC

CONSTANTS N,        \* limitIterators (>= 0; -1 = unlimited)
          MaxPulls  \* exploration bound for the unlimited case

VARIABLES pulls, delivered, raised
vars == <<pulls, delivered, raised>>

Init == pulls = 0 /\ delivered = 0 /\ raised = FALSE

\* the consumer asks for one more item:  for i, t in enumerate(iterable): if 0 <= N <= i: raise ...; yield t
Pull ==
    /\ ~raised
    /\ pulls < MaxPulls
    /\ pulls' = pulls + 1                      \* the item is taken from the source first
    /\ IF N >= 0 /\ N <= delivered
       THEN raised' = TRUE /\ delivered' = delivered       \* CollectionTooLargeException instead of item N+1
       ELSE raised' = FALSE /\ delivered' = delivered + 1

Next == Pull
Spec == Init /\ [][Next]_vars

\* C08 P1 on the model: never more than N + 1 items leave the source, never more than N reach the consumer
PullBound      == N >= 0 => pulls <= N + 1
DeliveredBound == N >= 0 => delivered <= N
\* and once it raised nothing more is pulled (Pull is disabled): an endless source cannot keep an evaluation alive
RaisedIsFinal  == raised => pulls = N + 1

=============================================================================
