------------------------------ MODULE Strings ------------------------------
(***************************************************************************)
(* Reference model of yaql's string and regex functions (C19).  Strings    *)
(* are sequences of code points.  The regular-expression ENGINE is an      *)
(* environment oracle: each event carries the match list the `re` module   *)
(* produced for the same compiled pattern and string; what yaql must make  *)
(* of those matches (search results, published match records, split,       *)
(* replace, replaceBy) is computed here.                                   *)
(***************************************************************************)
EXTENDS Integers, Sequences, FiniteSets, TLC

Null == <<"n">>
S(x) == <<"s", x>>
I(k) == <<"i", k>>
Bo(b) == <<"b", IF b THEN 1 ELSE 0>>
L(xs) == <<"l", xs>>

\* str.isspace: the white space str.strip()/str.split() use without arguments
WS == (9..13) \cup (28..32) \cup {133, 160, 5760, 8232, 8233, 8239, 8287, 12288} \cup (8192..8202)

Min(a, b) == IF a < b THEN a ELSE b
Max(a, b) == IF a > b THEN a ELSE b
Sub(s, a, b) == SubSeq(s, a + 1, b)          \* python slice s[a:b] for 0 <= a, b (clamped by SubSeq when b > Len)
Slice(s, a, b) == LET n == Len(s)
                      a1 == IF a < 0 THEN Max(a + n, 0) ELSE Min(a, n)
                      b1 == IF b < 0 THEN Max(b + n, 0) ELSE Min(b, n)
                  IN IF b1 <= a1 THEN <<>> ELSE SubSeq(s, a1 + 1, b1)
MatchAt(s, sub, i) == i + Len(sub) <= Len(s) /\ SubSeq(s, i + 1, i + Len(sub)) = sub     \* 0-based i

\* str.find(sub, start, end) / rfind with Python's index clamping
PyIdx(i, n) == IF i < 0 THEN Max(i + n, 0) ELSE Min(i, n)
Find(s, sub, start, end) ==
    LET n == Len(s)
        a == PyIdx(start, n)
        b == PyIdx(end, n)
        hits == {i \in a..(b - Len(sub)) : MatchAt(s, sub, i)}
    IN IF start > n THEN -1 ELSE IF hits = {} THEN -1 ELSE CHOOSE i \in hits : \A j \in hits : i <= j
RFind(s, sub, start, end) ==
    LET n == Len(s)
        a == PyIdx(start, n)
        b == PyIdx(end, n)
        hits == {i \in a..(b - Len(sub)) : MatchAt(s, sub, i)}
    IN IF start > n THEN -1 ELSE IF hits = {} THEN -1 ELSE CHOOSE i \in hits : \A j \in hits : i >= j
Big == 1000000

\* substring(start, length): negative start counts from the end, negative length means "to the end"
Substring(s, start, len) ==
    LET n == Len(s)
        l == IF len < 0 THEN n ELSE len
        a == IF start < 0 THEN start + n ELSE start
    IN Slice(s, a, a + l)
\* indexOf(sub, start) = find(sub, start) ; indexOf(sub, start, length): window [start, start + length)
IndexOf2(s, sub, start) == Find(s, sub, start, Len(s))
IndexOf3(s, sub, start, len) ==
    LET n == Len(s)
        a == IF start < 0 THEN start + n ELSE start
        l == IF len < 0 THEN n - a ELSE len
    IN Find(s, sub, a, a + l)
LastIndexOf2(s, sub, start) == RFind(s, sub, start, Len(s))
LastIndexOf3(s, sub, start, len) ==
    LET n == Len(s)
        a == IF start < 0 THEN start + n ELSE start
        l == IF len < 0 THEN n - a ELSE len
    IN RFind(s, sub, a, a + l)

(* ---- trimming ---------------------------------------------------------- *)
RECURSIVE LStrip(_, _), RStrip(_, _)
LStrip(s, cs) == IF s # <<>> /\ Head(s) \in cs THEN LStrip(Tail(s), cs) ELSE s
RStrip(s, cs) == IF s # <<>> /\ s[Len(s)] \in cs THEN RStrip(SubSeq(s, 1, Len(s) - 1), cs) ELSE s
Chars(c) == IF c = Null THEN WS ELSE {c[2][i] : i \in 1..Len(c[2])}      \* chars argument: null = white space
Strip(s, c) == RStrip(LStrip(s, Chars(c)), Chars(c))

(* ---- split --------------------------------------------------------------- *)
RECURSIVE SplitSep(_, _, _), SplitWS(_, _), RSplitSep(_, _, _), RSplitWS(_, _)
\* str.split(sep, maxsplit) for a non-empty separator; maxsplit < 0: no limit
SplitSep(s, sep, k) ==
    LET i == Find(s, sep, 0, Len(s))
    IN IF k = 0 \/ i = -1 THEN <<s>> ELSE <<Sub(s, 0, i)>> \o SplitSep(Sub(s, i + Len(sep), Len(s)), sep, k - 1)
\* str.split(None, maxsplit): runs of white space separate, leading/trailing white space ignored
SplitWS(s, k) ==
    LET t == LStrip(s, WS)
        ends == {i \in 1..Len(t) : t[i] \in WS}
        e == IF ends = {} THEN Len(t) + 1 ELSE CHOOSE i \in ends : \A j \in ends : i <= j
    IN IF t = <<>> THEN <<>>
       ELSE IF k = 0 THEN <<RStrip(t, {})>>            \* the remainder is kept as it is (only leading white space removed)
       ELSE <<SubSeq(t, 1, e - 1)>> \o SplitWS(SubSeq(t, e, Len(t)), k - 1)
RSplitSep(s, sep, k) ==
    LET i == RFind(s, sep, 0, Len(s))
    IN IF k = 0 \/ i = -1 THEN <<s>> ELSE RSplitSep(Sub(s, 0, i), sep, k - 1) \o <<Sub(s, i + Len(sep), Len(s))>>
RSplitWS(s, k) ==
    LET t == RStrip(s, WS)
        starts == {i \in 1..Len(t) : t[i] \in WS}
        b == IF starts = {} THEN 0 ELSE CHOOSE i \in starts : \A j \in starts : i >= j
    IN IF t = <<>> THEN <<>>
       ELSE IF k = 0 THEN <<t>>
       ELSE RSplitWS(SubSeq(t, 1, b), k - 1) \o <<SubSeq(t, b + 1, Len(t))>>
\* (with a limit the remainder of split(None, k) keeps its trailing white space; Python strips only what separates)

(* ---- replace --------------------------------------------------------------- *)
RECURSIVE Replace(_, _, _, _)
\* str.replace(old, new, count) for non-empty old; count < 0: all
Replace(s, old, new, k) ==
    LET i == Find(s, old, 0, Len(s))
    IN IF k = 0 \/ i = -1 THEN s ELSE Sub(s, 0, i) \o new \o Replace(Sub(s, i + Len(old), Len(s)), old, new, k - 1)
RECURSIVE ReplaceDict(_, _, _)
\* replace(dict, count): the pairs are applied one after the other in the dict's order
ReplaceDict(s, pairs, k) == IF pairs = <<>> THEN s
                            ELSE IF Head(pairs)[1] = <<>> THEN <<-1>>          \* empty key: outside the documented domain
                            ELSE ReplaceDict(Replace(s, Head(pairs)[1], Head(pairs)[2], k), Tail(pairs), k)

(* ---- case (ASCII letters; other code points are not mapped by this model) --- *)
Up(c) == IF c \in 97..122 THEN c - 32 ELSE c
Lo(c) == IF c \in 65..90 THEN c + 32 ELSE c
Ascii(s) == \A i \in 1..Len(s) : s[i] < 128

RECURSIVE Join(_, _)
Join(parts, sep) == IF parts = <<>> THEN <<>> ELSE IF Len(parts) = 1 THEN parts[1] ELSE parts[1] \o sep \o Join(Tail(parts), sep)

ToSeq(x) == x         \* code point lists arrive as sequences already
StartsWithAny(s, ps) == \E i \in 1..Len(ps) : Len(ps[i]) <= Len(s) /\ SubSeq(s, 1, Len(ps[i])) = ps[i]
EndsWithAny(s, ps) == \E i \in 1..Len(ps) : Len(ps[i]) <= Len(s) /\ SubSeq(s, Len(s) - Len(ps[i]) + 1, Len(s)) = ps[i]
Contains(s, sub) == Find(s, sub, 0, Len(s)) # -1

\* character classes of characters(): as documented (ASCII)
Range(a, b) == {i : i \in a..b}
Digits == Range(48, 57)
HexDigits == Digits \cup Range(97, 102) \cup Range(65, 70)
Lower == Range(97, 122)
Upper == Range(65, 90)
OctDigits == Range(48, 55)
Punct == Range(33, 47) \cup Range(58, 64) \cup Range(91, 96) \cup Range(123, 126)
White == {32, 9, 10, 13, 11, 12}
CharClass(name) ==
    CASE name = "digits" -> Digits [] name = "hexdigits" -> HexDigits [] name = "asciiLowercase" -> Lower [] name = "asciiUppercase" -> Upper
      [] name = "asciiLetters" -> Lower \cup Upper [] name = "letters" -> Lower \cup Upper [] name = "octdigits" -> OctDigits
      [] name = "punctuation" -> Punct [] name = "printable" -> Digits \cup Lower \cup Upper \cup Punct \cup White
      [] name = "lowercase" -> Lower [] name = "uppercase" -> Upper [] name = "whitespace" -> White

(***************************************************************************)
(* Regex wrappers over a match list ms: each match                         *)
(*   [s, e, groups: sequence of <<participates (0|1), gs, ge>>,            *)
(*    names: sequence of <<name, group index>>, exp: template expansion]   *)
(***************************************************************************)
Text(str, a, b) == Sub(str, a, b)
Rec(str, part, a, b) == <<IF part = 1 THEN S(Text(str, a, b)) ELSE Null, a, b>>       \* {value, start, end}
\* what a selector lambda sees: $1 the whole match, $2.. the groups, $name the named groups
Published(str, m) ==
    [pos   |-> <<Rec(str, 1, m.s, m.e)>> \o [i \in 1..Len(m.groups) |-> Rec(str, m.groups[i][1], m.groups[i][2], m.groups[i][3])],
     named |-> [i \in 1..Len(m.names) |-> <<m.names[i][1], LET g == m.groups[m.names[i][2]] IN Rec(str, g[1], g[2], g[3])>>]]

RECURSIVE SplitBy(_, _, _, _), SubstBy(_, _, _, _, _)
\* re.split: pieces between matches interleaved with every group of each match (null for a group that did not participate)
SplitBy(str, ms, last, k) ==
    IF ms = <<>> \/ k = 0 THEN <<S(Text(str, last, Len(str)))>>
    ELSE LET m == Head(ms)
         IN <<S(Text(str, last, m.s))>>
            \o [i \in 1..Len(m.groups) |-> IF m.groups[i][1] = 1 THEN S(Text(str, m.groups[i][2], m.groups[i][3])) ELSE Null]
            \o SplitBy(str, Tail(ms), m.e, k - 1)
\* re.sub with per-match replacement texts reps[i]
SubstBy(str, ms, reps, last, k) ==
    IF ms = <<>> \/ k = 0 THEN Text(str, last, Len(str))
    ELSE Text(str, last, Head(ms).s) \o Head(reps) \o SubstBy(str, Tail(ms), Tail(reps), Head(ms).e, k - 1)
RECURSIVE DecText(_)
DecText(n) == IF n < 10 THEN <<48 + n>> ELSE DecText(n \div 10) \o <<48 + (n % 10)>>
Limit(k) == IF k <= 0 THEN -1 ELSE k           \* count / maxsplit 0 (or negative): no limit

(***************************************************************************)
(* Expected result of one recorded call; <<"skip">> = outside the model.   *)
(***************************************************************************)
Expected(e) ==
    LET s == e.s IN
    CASE e.fn = "substring"     -> S(Substring(s, e.a, e.b))
      [] e.fn = "indexOf1"      -> I(Find(s, e.sub, 0, Len(s)))
      [] e.fn = "indexOf2"      -> I(IndexOf2(s, e.sub, e.a))
      [] e.fn = "indexOf3"      -> I(IndexOf3(s, e.sub, e.a, e.b))
      [] e.fn = "lastIndexOf1"  -> I(RFind(s, e.sub, 0, Len(s)))
      [] e.fn = "lastIndexOf2"  -> I(LastIndexOf2(s, e.sub, e.a))
      [] e.fn = "lastIndexOf3"  -> I(LastIndexOf3(s, e.sub, e.a, e.b))
      [] e.fn = "split"         -> IF e.sep = Null THEN L([i \in 1..Len(SplitWS(s, e.a)) |-> S(SplitWS(s, e.a)[i])])
                                   ELSE IF e.sep[2] = <<>> THEN <<"e">>
                                   ELSE L([i \in 1..Len(SplitSep(s, e.sep[2], e.a)) |-> S(SplitSep(s, e.sep[2], e.a)[i])])
      [] e.fn = "rightSplit"    -> IF e.sep = Null THEN L([i \in 1..Len(RSplitWS(s, e.a)) |-> S(RSplitWS(s, e.a)[i])])
                                   ELSE IF e.sep[2] = <<>> THEN <<"e">>
                                   ELSE L([i \in 1..Len(RSplitSep(s, e.sep[2], e.a)) |-> S(RSplitSep(s, e.sep[2], e.a)[i])])
      [] e.fn = "splitJoin"     -> S(s)          \* split and join are inverse for a non-empty separator: s.split(sep).join(sep) = s
      [] e.fn = "trim"          -> S(Strip(s, e.chars))
      [] e.fn = "trimLeft"      -> S(LStrip(s, Chars(e.chars)))
      [] e.fn = "trimRight"     -> S(RStrip(s, Chars(e.chars)))
      [] e.fn = "norm"          -> IF Strip(s, e.chars) = <<>> THEN Null ELSE S(Strip(s, e.chars))
      [] e.fn = "isEmpty"       -> Bo((IF e.trim = 1 THEN Strip(s, e.chars) ELSE s) = <<>>)
      [] e.fn = "replace"       -> IF e.old = <<>> THEN <<"skip">> ELSE S(Replace(s, e.old, e.new, e.a))
      [] e.fn = "replaceDict"   -> LET r == ReplaceDict(s, e.pairs, e.a) IN IF r = <<-1>> THEN <<"skip">> ELSE S(r)
      [] e.fn = "toUpper"       -> IF Ascii(s) THEN S([i \in 1..Len(s) |-> Up(s[i])]) ELSE <<"skip">>
      [] e.fn = "toLower"       -> IF Ascii(s) THEN S([i \in 1..Len(s) |-> Lo(s[i])]) ELSE <<"skip">>
      [] e.fn = "startsWith"    -> Bo(StartsWithAny(s, e.parts))
      [] e.fn = "endsWith"      -> Bo(EndsWithAny(s, e.parts))
      [] e.fn = "len"           -> I(Len(s))
      [] e.fn = "concat"        -> S(Join(<<s>> \o e.parts, <<>>))
      [] e.fn = "in"            -> Bo(Contains(s, e.sub))
      [] e.fn = "join"          -> S(Join(e.parts, s))
      [] e.fn = "toCharArray"   -> L([i \in 1..Len(s) |-> S(<<s[i]>>)])
      [] e.fn = "characters"    -> <<"set", UNION {CharClass(e.classes[i]) : i \in 1..Len(e.classes)}>>
      \* ---- regex (ms = the environment's match list)
      [] e.fn = "matches"       -> Bo(e.ms # <<>>)
      [] e.fn = "notMatches"    -> Bo(e.ms = <<>>)
      [] e.fn = "search"        -> IF e.ms = <<>> THEN Null ELSE S(Text(s, e.ms[1].s, e.ms[1].e))
      [] e.fn = "searchSel"     -> IF e.ms = <<>> THEN Null ELSE <<"pub", Published(s, e.ms[1])>>
      [] e.fn = "searchAll"     -> L([i \in 1..Len(e.ms) |-> S(Text(s, e.ms[i].s, e.ms[i].e))])
      [] e.fn = "searchAllSel"  -> <<"pubs", [i \in 1..Len(e.ms) |-> Published(s, e.ms[i])]>>
      [] e.fn = "rsplit"        -> L(SplitBy(s, e.ms, 0, Limit(e.a)))
      [] e.fn = "rreplace"      -> S(SubstBy(s, e.ms, [i \in 1..Len(e.ms) |-> e.ms[i].exp], 0, Limit(e.a)))
      \* the replacement lambda is run for every match on that match's own record: here it spells the match's start position
      [] e.fn = "replaceByStart" -> S(SubstBy(s, e.ms, [i \in 1..Len(e.ms) |-> <<60>> \o DecText(e.ms[i].s) \o <<62>>], 0, Limit(e.a)))
      [] e.fn = "replaceBy"     -> S(SubstBy(s, e.ms, [i \in 1..Len(e.ms) |-> <<60>> \o Text(s, e.ms[i].s, e.ms[i].e) \o <<62>>], 0, Limit(e.a)))
=============================================================================
