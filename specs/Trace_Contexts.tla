--------------------------- MODULE Trace_Contexts ---------------------------
(***************************************************************************)
(* Validates histories recorded from the real yaql.language.contexts       *)
(* classes against Contexts.tla.  One NDJSON line per API call:            *)
(*   tr, seq      trace id and position (seq = 0 starts from the empty     *)
(*                forest)                                                  *)
(*   op, c, ms, l, name, v, f, t, x, new   the call (same fields as hist)  *)
(*   err          the real outcome                                         *)
(*   obs          the real reads on every declared context after the call  *)
(* Every event is re-executed with the spec's own Do<Op> function and the  *)
(* logged reads are compared with ObsRef of the resulting model state.     *)
(* A mismatch prints <<"REJECT", tr, seq, clause>> and validation goes on. *)
(***************************************************************************)
EXTENDS Contexts, Json, IOUtils, TLCExt

TraceLog == ndJsonDeserialize(IOEnv.TRACE_FILE)

VARIABLE pos
tvars == <<st, hist, err, obs, pos>>

E == TraceLog[pos]

Empty == [ctx |-> <<>>, data |-> <<>>, funcs |-> <<>>, excl |-> <<>>]

Apply(s, e) ==
    CASE e.op = "NewContext"     -> DoNewContext(s, e.c)
      [] e.op = "NewMulti"       -> DoNewMulti(s, e.ms)
      [] e.op = "NewLinked"      -> DoNewLinked(s, e.c, e.l)
      [] e.op = "Child"          -> DoChild(s, e.c)
      [] e.op = "Set"            -> DoSet(s, e.c, e.name, e.v)
      [] e.op = "Del"            -> DoDel(s, e.c, e.name)
      [] e.op = "Register"       -> DoRegister(s, e.c, e.f, e.t, e.x = 1)
      [] e.op = "DeleteFunction" -> DoDeleteFunction(s, e.c, e.f, e.t)

KeepOf(kn) == IF kn = "all" THEN Tags ELSE {kn}
ToSet(q) == {q[i] : i \in 1..Len(q)}

\* clause-by-clause comparison of the logged reads of one context with the reference
GetOk(s, o)  == \A i \in 1..Len(o.get) : RefGet(s, o.c, o.get[i][1]) = o.get[i][2]
HasOk(s, o)  == ToSet(o.has) = {n \in Names : RefContains(s, o.c, n)}
KeysOk(s, o) == ToSet(o.keys) = RefKeys(s, o.c)
FuncsOk(s, o) ==
    \A i \in 1..Len(o.funcs) :
        LET r == o.funcs[i]
            layer == Head(RefLayers(s, o.c))
        IN /\ ToSet(r[3]) = LayerFuncs(s, layer, r[1]) \cap KeepOf(r[2])
           /\ r[4] = (IF LayerExcl(s, layer, r[1]) THEN 1 ELSE 0)
CollectOk(s, o) ==
    \A i \in 1..Len(o.collect) :
        LET r == o.collect[i]
            ref == RefCollect(s, o.c, r[1], KeepOf(r[2]))
        IN /\ Len(r[3]) = Len(ref)
           /\ \A j \in 1..Len(ref) : ToSet(r[3][j]) = ref[j]

Reject(clause) == PrintT(<<"REJECT", E.tr, E.seq, clause>>)

Check(b, clause) == IF b THEN TRUE ELSE Reject(clause)

TraceInit == /\ st = Empty /\ hist = <<>> /\ err = "ok" /\ obs = <<>> /\ pos = 1

TraceNext ==
    /\ pos <= Len(TraceLog)
    /\ pos' = pos + 1
    /\ LET s0 == IF E.seq = 0 THEN Empty ELSE st
           r  == Apply(s0, E)
       IN /\ st' = r.s
          /\ err' = r.e
          /\ Check(E.err = r.e, "outcome")
          /\ Check(E.new = Len(r.s.ctx), "harness-id-map")
          /\ Check({E.obs[i].c : i \in 1..Len(E.obs)} = Declared(r.s), "declared-set")
          /\ \A i \in 1..Len(E.obs) :
                E.obs[i].c \in Declared(r.s) =>
                  /\ Check(GetOk(r.s, E.obs[i]), "get")
                  /\ Check(HasOk(r.s, E.obs[i]), "contains")
                  /\ Check(KeysOk(r.s, E.obs[i]), "keys")
                  /\ Check(FuncsOk(r.s, E.obs[i]), "get_functions")
                  /\ Check(CollectOk(r.s, E.obs[i]), "collect_functions")
    /\ UNCHANGED <<hist, obs>>

TraceSpec == TraceInit /\ [][TraceNext]_tvars

\* every line consumed (one state per line plus the initial state)
TraceAccepted == TLCGet("stats").diameter - 1 = Len(TraceLog)
=============================================================================
