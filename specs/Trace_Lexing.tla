---------------------------- MODULE Trace_Lexing ----------------------------
(* Validates recorded literal evaluations against Lexing.tla (C16).           *)
(*  {id, act:"str", style, body:[cps], names:[[name cps, cp]..], kind:"value"|"error"|"other", v:[cps]} *)
(*  {id, act:"quote", style, v:[cps], back_kind, back:[cps]}   Quote(v) parsed by the real engine       *)
(*  {id, act:"num2", t1, t2: numeral texts [cps], k1, k2: "int"|"float"|"other", limbs1, limbs2, fok1, fok2}       *)
(*  {id, act:"int", digits:[0-9 values], kind, limbs:[..]}                                               *)
(*  {id, act:"kw", word, dunder, got}                                                                      *)
EXTENDS Lexing, Json, IOUtils
TraceLog == ndJsonDeserialize(IOEnv.TRACE_FILE)
VARIABLE pos

Verdict(e) ==
    CASE e.act = "str" ->
            LET l == LiteralN(e.body, e.style, e.names)
            IN IF l.kind = "notoken" THEN "ok"                    \* not one string token: outside this model (C03 judges it)
               ELSE IF l.kind # e.kind THEN "escape-decoding-outcome"
               ELSE IF l.kind = "value" /\ l.v # e.v THEN "escape-decoding-value"
               ELSE "ok"
      [] e.act = "quote" ->
            \* the spelling the model exhibits must be what the harness sent, and must read back
            IF e.style = "verbatim" /\ ~VerbatimSpellable(e.v) THEN
                (IF e.back_kind = "value" /\ e.back = e.v THEN "verbatim-unspellable-value-read-back" ELSE "no-verbatim-spelling")
            ELSE IF e.spelling # Quote(e.v, e.style) THEN "harness-spelling-differs-from-Quote"
            ELSE IF ~(e.back_kind = "value" /\ e.back = e.v) THEN "quoted-spelling-does-not-read-back"
            ELSE "ok"
      [] e.act = "quote2" ->
            \* two literals in one expression [l1, l2]: each reads back as its own value
            IF e.sp1 # Quote(e.v1, e.style1) \/ e.sp2 # Quote(e.v2, e.style2) THEN "harness-spelling-differs-from-Quote"
            ELSE IF ~(e.ok = 1 /\ e.back1 = e.v1 /\ e.back2 = e.v2) THEN "two-literals-do-not-read-back"
            ELSE "ok"
      [] e.act = "num2" ->
            \* two numerals, in one expression or in two statements of one engine (the first still held): each denotes what it
            \* spells - an integer without a point, a float with one (the float's value is checked against the environment: fok)
            LET Kind(t) == IF \E i \in 1..Len(t) : t[i] = 46 THEN "float" ELSE "int"
                Digits(t) == [i \in 1..Len(t) |-> t[i] - 48]
                Ok(t, k, limbs, fok) == /\ k = Kind(t)
                                        /\ (k = "int" => limbs = IntLiteral(Digits(t)))
                                        /\ (k = "float" => fok = 1)
            IN IF ~Ok(e.t1, e.k1, e.limbs1, e.fok1) THEN "numeral-denotes-another-number"
               ELSE IF ~Ok(e.t2, e.k2, e.limbs2, e.fok2) THEN "numeral-denotes-another-number"
               ELSE "ok"
      [] e.act = "int" ->
            IF e.kind # "int" THEN "integer-literal-kind"
            ELSE IF e.limbs # IntLiteral(e.digits) THEN "integer-literal-value" ELSE "ok"
      [] e.act = "kw" ->
            \* a word beginning with two underscores is rejected; true/false/null are the constants; others denote their text
            IF e.got # (IF e.dunder = 1 THEN "REJECT" ELSE KeywordValue(e.word)) THEN "keyword" ELSE "ok"

Init == pos = 1
Next == /\ pos <= Len(TraceLog)
        /\ pos' = pos + 1
        /\ LET v == Verdict(TraceLog[pos])
           IN IF v = "ok" THEN TRUE ELSE PrintT(<<"REJECT", TraceLog[pos].id, v>>)
TraceSpec == Init /\ [][Next]_pos
TraceAccepted == TLCGet("stats").diameter - 1 = Len(TraceLog)
=============================================================================
