---------------------------- MODULE EngineParse ----------------------------
(***************************************************************************)
(* One YaqlEngine asked to parse several texts, sequentially or by         *)
(* concurrent threads (C01).                                               *)
(*                                                                         *)
(* The engine owns one ply lexer object.  A lexer object is a mutable      *)
(* cursor [data, pos]; the LR parser pulls tokens from "its" lexer one at  *)
(* a time (ply.lex.Lexer.token), so a thread switch can fall between any   *)
(* two token fetches.  Two designs are modelled:                           *)
(*   Shared = TRUE   the pinned code: every parse uses the engine's lexer  *)
(*   Shared = FALSE  the repaired code: every parse uses its own clone     *)
(* The parser is abstracted to what matters here: an LR parser accepts a   *)
(* token as long as the tokens seen so far are a viable prefix, and its    *)
(* result (tree or error) is a function of the tokens it saw and - for a   *)
(* grammar error - of the text held by the lexer at that moment (yaql's    *)
(* p_error quotes p.lexer.lexdata).                                        *)
(*                                                                         *)
(* Tokens: "a", "b" operands, "o" a binary operator, "X" an illegal        *)
(* character.  Grammar: operand (o operand)*.                              *)
(*                                                                         *)
(* Process-wide settings.  Token "B" is a numeral longer than the          *)
(* interpreter's conversion limit: it lexes as an operand only while the   *)
(* process-wide limit is lifted, else it is a lexical error.  Toggle =     *)
(* TRUE models an engine that lifts the limit for the duration of each     *)
(* parse call and puts the saved value back afterwards: TLC shows that two *)
(* overlapping parses then break Isolation (the first one to finish        *)
(* restores the limit under the other one's feet) - the code under test    *)
(* does not touch process-wide state (Toggle = FALSE).                     *)
(***************************************************************************)
EXTENDS Naturals, Sequences, FiniteSets, TLC

CONSTANTS
    Texts,      \* sequence of texts; a text is a sequence of tokens
    NP,         \* number of parse calls
    Shared,     \* TRUE: all parses use the engine lexer; FALSE: clone per parse
    Sequential  \* TRUE: a parse starts only when no other is running (histories)

Parses == 1..NP
EngineLexer == 0
Toggle == FALSE        \* (a definition, overridden by the negative model-checking job)

VARIABLES
    text,      \* text[p]: index into Texts of the text parse p was asked to parse
    lexers,    \* lexer id -> [data: token sequence, pos: tokens consumed]
    lexerOf,   \* lexerOf[p]: lexer id parse p pulls from
    pc,        \* "idle" | "run" | "done"
    seen,      \* tokens parse p has fetched (with "END")
    result,    \* outcome of parse p once done
    sched,     \* history: which parse took each step
    glob,      \* the process-wide conversion limit: "limited" | "lifted"
    saved      \* saved[p]: what parse p found in glob when it started (Toggle only)

vars == <<text, lexers, lexerOf, pc, seen, result, sched, glob, saved>>

Operand(t) == t \in {"a", "b", "B"}

\* viable-prefix check of the LR parser: would token t be accepted after the tokens s?
Accepts(s, t) ==
    LET n == Len(s)
    IN IF n % 2 = 0 THEN Operand(t)                 \* expecting an operand
       ELSE t = "o" \/ t = "END"                      \* expecting operator or end

NoResult == [kind |-> "none", toks |-> <<>>, tok |-> "", pos |-> 0, data |-> <<>>]

\* what a lexer returns at its cursor, under the process-wide setting g
Lex(lx, g) == IF lx.pos >= Len(lx.data) THEN "END"
              ELSE IF lx.data[lx.pos + 1] = "X" THEN "LEXERR"
              ELSE IF lx.data[lx.pos + 1] = "B" /\ g = "limited" THEN "LEXERR"
              ELSE lx.data[lx.pos + 1]
\* the character a lexical error complains about
Bad(lx) == lx.data[lx.pos + 1]

\* the result the same text gives on a fresh engine (sequential run of the machine below)
RECURSIVE FreshRun(_, _, _)
FreshRun(data, pos, s) ==
    LET t == Lex([data |-> data, pos |-> pos], IF Toggle THEN "lifted" ELSE "limited")     \* alone, a toggling engine has the limit lifted
    IN IF t = "LEXERR" THEN [kind |-> "lex", toks |-> s, tok |-> data[pos + 1], pos |-> pos, data |-> <<>>]
       ELSE IF ~Accepts(s, t)
            THEN IF t = "END" THEN [kind |-> "gram", toks |-> s, tok |-> "END", pos |-> 0, data |-> <<>>]
                 ELSE [kind |-> "gram", toks |-> s, tok |-> t, pos |-> pos, data |-> data]
       ELSE IF t = "END" THEN [kind |-> "tree", toks |-> s, tok |-> "", pos |-> 0, data |-> <<>>]
       ELSE FreshRun(data, pos + 1, Append(s, t))
Fresh(i) == FreshRun(Texts[i], 0, <<>>)

Init ==
    /\ text \in [Parses -> 1..Len(Texts)]
    /\ lexers = [l \in {EngineLexer} |-> [data |-> <<>>, pos |-> 0]]
    /\ lexerOf = [p \in Parses |-> EngineLexer]
    /\ pc = [p \in Parses |-> "idle"]
    /\ seen = [p \in Parses |-> <<>>]
    /\ result = [p \in Parses |-> NoResult]
    /\ sched = <<>>
    /\ glob = "limited"
    /\ saved = [p \in Parses |-> "limited"]

\* YaqlEngine.__call__ up to and including lexer.input(text): pick the lexer, load the text
Begin(p) ==
    /\ pc[p] = "idle"
    /\ Sequential => \A q \in Parses : pc[q] # "run"
    /\ LET lx == IF Shared THEN EngineLexer ELSE p       \* clone: a fresh lexer object per parse
       IN /\ lexerOf' = [lexerOf EXCEPT ![p] = lx]
          /\ lexers' = [l \in DOMAIN lexers \cup {lx} |->
                          IF l = lx THEN [data |-> Texts[text[p]], pos |-> 0] ELSE lexers[l]]
    /\ pc' = [pc EXCEPT ![p] = "run"]
    /\ sched' = Append(sched, p)
    /\ IF Toggle THEN saved' = [saved EXCEPT ![p] = glob] /\ glob' = "lifted" ELSE UNCHANGED <<glob, saved>>
    /\ UNCHANGED <<text, seen, result>>

\* one call of Lexer.token() by parse p, and the parser's reaction to the token
Fetch(p) ==
    /\ pc[p] = "run"
    /\ LET l  == lexerOf[p]
           lx == lexers[l]
           t  == Lex(lx, glob)
           s  == seen[p]
       IN IF t = "LEXERR"
          THEN /\ result' = [result EXCEPT ![p] = [kind |-> "lex", toks |-> s, tok |-> Bad(lx), pos |-> lx.pos, data |-> <<>>]]
               /\ pc' = [pc EXCEPT ![p] = "done"]
               /\ UNCHANGED <<lexers, seen>>
          ELSE IF ~Accepts(s, t)
          THEN /\ result' = [result EXCEPT ![p] =
                      IF t = "END" THEN [kind |-> "gram", toks |-> s, tok |-> "END", pos |-> 0, data |-> <<>>]
                      ELSE [kind |-> "gram", toks |-> s, tok |-> t, pos |-> lx.pos, data |-> lx.data]]
               /\ pc' = [pc EXCEPT ![p] = "done"]
               /\ lexers' = [lexers EXCEPT ![l].pos = IF t = "END" THEN @ ELSE @ + 1]
               /\ UNCHANGED seen
          ELSE IF t = "END"
          THEN /\ result' = [result EXCEPT ![p] = [kind |-> "tree", toks |-> s, tok |-> "", pos |-> 0, data |-> <<>>]]
               /\ pc' = [pc EXCEPT ![p] = "done"]
               /\ UNCHANGED <<lexers, seen>>
          ELSE /\ seen' = [seen EXCEPT ![p] = Append(s, t)]
               /\ lexers' = [lexers EXCEPT ![l].pos = @ + 1]
               /\ UNCHANGED <<pc, result>>
    /\ sched' = Append(sched, p)
    \* the parse call returns (or raises) in this step: a toggling engine puts back what it saved
    /\ IF Toggle /\ pc'[p] = "done" THEN glob' = saved[p] /\ UNCHANGED saved ELSE UNCHANGED <<glob, saved>>
    /\ UNCHANGED <<text, lexerOf>>

Next == \E p \in Parses : Begin(p) \/ Fetch(p)

Spec == Init /\ [][Next]_vars

-----------------------------------------------------------------------------
AllDone == \A p \in Parses : pc[p] = "done"

(* C01: every finished parse returned what its own text gives on a fresh engine. *)
Isolation == \A p \in Parses : pc[p] = "done" => result[p] = Fresh(text[p])

(* ... and never saw a token of another text (prefix of its own token stream). *)
OwnTokens ==
    \A p \in Parses :
        LET own == Texts[text[p]]
        IN /\ Len(seen[p]) <= Len(own)
           /\ \A i \in 1..Len(seen[p]) : seen[p][i] = own[i]

(* The discipline that makes it hold: two running parses never share a lexer object. *)
NoSharedLexer ==
    \A p, q \in Parses : (p # q /\ pc[p] = "run" /\ pc[q] = "run") => lexerOf[p] # lexerOf[q]

(* Lemma checked by TLC: under the discipline the property holds. *)
DisciplineImpliesIsolation == NoSharedLexer => (Isolation /\ OwnTokens)

(* Process-wide state is as the parses found it once all of them are done. *)
ProcessStateRestored == AllDone => glob = "limited"

SchedView == <<text, lexers, lexerOf, pc, seen, result, glob, saved>>
=============================================================================
