-------------------------- MODULE YaqlizationGrant --------------------------
(***************************************************************************)
(* How the grant "yaqlized" spreads over a history of evaluations (C07).   *)
(* Objects: A yaqlized with auto_yaqlize_result, B yaqlized without it;    *)
(* k1 = A.child, k3 = B.child, k2 another instance of the same class K     *)
(* that no yaqlized object leads to.  Only the value actually obtained     *)
(* through an auto-yaqlizing object becomes reachable - never its class,   *)
(* never other instances.  r1 = A.rchild and r2 are instances of a class R *)
(* that the host yaqlized itself with a restrictive policy (only `pub` is  *)
(* whitelisted): they obey that policy whether or not they were obtained   *)
(* through an auto-yaqlizing object - the grant never widens a policy.     *)
(***************************************************************************)
EXTENDS Naturals, Sequences, FiniteSets, TLC
CONSTANT MaxHist
Objs == {"k1", "k2", "k3"}
VARIABLES yq, hist, obs
vars == <<yq, hist, obs>>
Init == yq = {} /\ hist = <<>> /\ obs = <<>>
\* evaluate  $a.child  (A auto-yaqlizes what it returns)  /  $b.child  (B does not)
ObtainViaA == /\ Len(hist) < MaxHist /\ yq' = yq \cup {"k1"} /\ hist' = Append(hist, "obtainA") /\ obs' = Append(obs, "ok")
ObtainViaB == /\ Len(hist) < MaxHist /\ yq' = yq /\ hist' = Append(hist, "obtainB") /\ obs' = Append(obs, "ok")
\* evaluate  $o.secret  on one of the K instances
Probe(o) == /\ Len(hist) < MaxHist /\ yq' = yq /\ hist' = Append(hist, o)
            /\ obs' = Append(obs, IF o \in yq THEN "reach" ELSE "deny")
\* evaluate  $a.rchild  (an instance of the restrictively yaqlized class R) and probe R instances
RObjs == {"r1", "r2"}
ObtainRViaA == /\ Len(hist) < MaxHist /\ yq' = yq /\ hist' = Append(hist, "obtainRA") /\ obs' = Append(obs, "ok")
ProbeR(o, member) == /\ Len(hist) < MaxHist /\ yq' = yq /\ hist' = Append(hist, o \o "." \o member)
                     /\ obs' = Append(obs, IF member = "pub" THEN "reach" ELSE "deny")
Next == ObtainViaA \/ ObtainViaB \/ ObtainRViaA \/ (\E o \in Objs : Probe(o)) \/ (\E o \in RObjs, m \in {"pub", "secret"} : ProbeR(o, m))
Spec == Init /\ [][Next]_vars
OnlyObtainedInstances == yq \subseteq {"k1"}
=============================================================================
