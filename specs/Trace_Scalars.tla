--------------------------- MODULE Trace_Scalars ---------------------------
(* Validates recorded evaluations of scalar operators against Scalars.tla.  *)
(* One NDJSON line per event:                                               *)
(*   {id, act: "pair", a, b, r: {op: value}, py: {op: value}}               *)
(*   {id, act: "unary", a, r: {pos, neg}}                                   *)
(*   {id, act: "triple", lt: [[..],[..],[..]]}                              *)
(*   {id, act: "math", fn, args: [values], r: value}      (Math.tla)        *)
EXTENDS Math, Json, IOUtils

TraceLog == ndJsonDeserialize(IOEnv.TRACE_FILE)
VARIABLE pos

Verdict(e) ==
    CASE e.act = "pair"   -> PairVerdict(e.a, e.b, e.r, e.py)
      [] e.act = "unary"  -> UnaryVerdict(e.a, e.r)
      [] e.act = "triple" -> TripleVerdict(e.lt)
      [] e.act = "math"   -> MathVerdict(e.fn, e.args, e.r)

Init == pos = 1
Next == /\ pos <= Len(TraceLog)
        /\ pos' = pos + 1
        /\ LET v == Verdict(TraceLog[pos])
           IN IF v = "ok" THEN TRUE ELSE PrintT(<<"REJECT", TraceLog[pos].id, v>>)
TraceSpec == Init /\ [][Next]_pos
TraceAccepted == TLCGet("stats").diameter - 1 = Len(TraceLog)
=============================================================================
