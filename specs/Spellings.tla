------------------------------ MODULE Spellings ------------------------------
(***************************************************************************)
(* All ways of passing the same arguments to one function (C12).           *)
(*                                                                         *)
(* A signature (projected from a registered FunctionDefinition):           *)
(*   n      number of caller-visible positional parameters                 *)
(*   dflt   dflt[i]: parameter i has a default                             *)
(*   lazy   lazy[i]: parameter i is lazily evaluated (lambda / expression) *)
(*   nokw   the function takes no keyword arguments (no_kwargs)            *)
(*   fn/me  callable as function / as method                               *)
(* An argument tuple gives a value to every parameter without default and  *)
(* to a chosen subset `given` of the defaulted ones.                       *)
(*                                                                         *)
(* A spelling: the first m parameters positionally (an omitted one inside  *)
(* that prefix is an empty slot, or - if eager - its default written out), *)
(* the remaining given ones by keyword (convention-translated name), in    *)
(* function form f(...) or method form recv.f(...), or through             *)
(* call(name, args, kwargs).                                               *)
(***************************************************************************)
EXTENDS Naturals, Sequences, FiniteSets, TLC

CONSTANT Sigs      \* sequence of signatures

Required(s) == {i \in 1..s.n : ~s.dflt[i]}
GivenSets(s) == {Required(s) \cup g : g \in SUBSET {i \in 1..s.n : s.dflt[i]}}

\* spelling: [m, form \in {"func", "method", "call"}, explicit \in BOOLEAN (omitted eager defaults in the prefix written out)]
Forms(s) == (IF s.fn THEN {"func", "call"} ELSE {}) \cup (IF s.me /\ s.n >= 1 THEN {"method"} ELSE {})

SpellingsOf(s, given) ==
    {[m |-> m, form |-> f, explicit |-> x] :
        \* the positional prefix ends with a given argument, or with exactly one empty slot (of a defaulted parameter) that is
        \* directly followed by keyword arguments:  f(a, , k => v)
        m \in {k \in 0..s.n : k = 0 \/ k \in given
                               \/ (k >= 2 /\ k \notin given /\ s.dflt[k] /\ (k - 1) \in given /\ \E j \in given : j > k)},
        f \in Forms(s), x \in BOOLEAN}

\* does the spelling bind at all?
Valid(s, given, sp) ==
    LET kw == {i \in given : i > sp.m}
        slots == {i \in 1..sp.m : i \notin given}
    IN /\ (kw # {} => ~s.nokw)                                        \* keywords need a function that accepts them
       /\ (sp.form = "method" => 1 \in given /\ sp.m >= 1)            \* the receiver is the first positional argument
       /\ (sp.form = "method" /\ sp.m \notin given => sp.m >= 3)       \* an empty slot needs a value before it inside the parentheses
       /\ (sp.explicit => \A i \in slots : ~s.lazy[i])                \* only eager defaults can be written out
       /\ (sp.explicit => slots # {})                                 \* (otherwise it is the same text as the non-explicit spelling)

VARIABLES sig, given, sp, valid
vars == <<sig, given, sp, valid>>
Init == /\ sig \in 1..Len(Sigs)
        /\ given \in GivenSets(Sigs[sig])
        /\ sp \in SpellingsOf(Sigs[sig], given)
        /\ valid = Valid(Sigs[sig], given, sp)
Next == UNCHANGED vars
Spec == Init /\ [][Next]_vars

\* every argument tuple has at least one valid spelling of every form the function supports
SomeSpelling == \A f \in Forms(Sigs[sig]) :
    (f = "method" => 1 \in given) =>
        \E q \in SpellingsOf(Sigs[sig], given) : q.form = f /\ Valid(Sigs[sig], given, q)
=============================================================================
