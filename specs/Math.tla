------------------------------- MODULE Math -------------------------------
(***************************************************************************)
(* The integer side of yaql's math library (yaql/standard_library/math.py) *)
(* on top of Scalars.tla: bitwise functions on unbounded two's complement  *)
(* integers, shifts, pow / modular pow, sign, abs, round to a power of ten *)
(* (half to even), int(), isInteger / isNumber, max / min.  Float results  *)
(* are outside the model ("unmodelled").  This module extends the          *)
(* specification beyond the listed properties; the harness reports         *)
(* disagreements as model-divergence notes, except where they are also     *)
(* violations of C15 (a boolean accepted as a number by an operator).      *)
(*                                                                         *)
(* Deliberate deviation recorded from the code: functions whose parameters *)
(* are typed with plain `int` (bitwiseXxx, shiftBitsXxx) accept booleans  *)
(* as 0 / 1 - PlainInt - whereas functions typed Number() (pow, sign, abs, *)
(* round, hex) refuse them.                                                *)
(***************************************************************************)
EXTENDS Scalars

(* ---- native view of small integers ------------------------------------ *)
Small(a) == IsInt(a) /\ Len(Mag(a)) <= 2                      \* |a| < 10^8
Nat2(a) == IF Mag(a) = <<>> THEN 0 ELSE IF Len(Mag(a)) = 1 THEN Mag(a)[1] ELSE Mag(a)[1] + Base * Mag(a)[2]
ToNative(a) == Sgn(a) * Nat2(a)
\* plain `int` parameters: integers and booleans
PlainInt(v) == IsInt(v) \/ IsBool(v)
PlainNative(v) == IF IsBool(v) THEN v[2] ELSE ToNative(v)
PlainSmall(v) == IsBool(v) \/ Small(v)

(* ---- bitwise functions on unbounded two's complement integers --------- *)
\* x = (2 * (x \div 2)) + (x % 2) with floored division: the recursion ends in 0 (all zeros) or -1 (all ones)
BitNot(a) == 0 - a - 1
RECURSIVE BitAnd(_, _), BitOr(_, _), BitXor(_, _)
BitAnd(a, b) == IF a = 0 \/ b = 0 THEN 0 ELSE IF a = -1 THEN b ELSE IF b = -1 THEN a
                ELSE (a % 2) * (b % 2) + 2 * BitAnd(a \div 2, b \div 2)
BitOr(a, b)  == IF a = 0 THEN b ELSE IF b = 0 THEN a ELSE IF a = -1 \/ b = -1 THEN -1
                ELSE (IF (a % 2) = 1 \/ (b % 2) = 1 THEN 1 ELSE 0) + 2 * BitOr(a \div 2, b \div 2)
BitXor(a, b) == IF a = 0 THEN b ELSE IF b = 0 THEN a ELSE IF a = -1 THEN BitNot(b) ELSE IF b = -1 THEN BitNot(a)
                ELSE (((a % 2) + (b % 2)) % 2) + 2 * BitXor(a \div 2, b \div 2)
RECURSIVE Pow2(_)
Pow2(n) == IF n = 0 THEN 1 ELSE 2 * Pow2(n - 1)
ShiftLeft(v, n)  == v * Pow2(n)
ShiftRight(v, n) == v \div Pow2(n)        \* floors: -5 >> 1 = -3

(* ---- powers ----------------------------------------------------------- *)
RECURSIVE IntPow(_, _)
IntPow(a, n) == IF n = 0 THEN OfInt(1) ELSE LET r == IntPow(a, n - 1) IN IntMul(a, r)
RECURSIVE NatPowMod(_, _, _)
NatPowMod(a, n, m) == IF n = 0 THEN (1 % m) ELSE LET r == NatPowMod(a, n - 1, m) IN (((a % m) * r) % m)

(* ---- rounding an integer to a power of ten, ties to even --------------- *)
RECURSIVE Pow10(_)
Pow10(n) == IF n = 0 THEN 1 ELSE 10 * Pow10(n - 1)
RoundTo(x, p) ==        \* x integer, p = 10^k > 0
    LET q == x \div p  r == x % p
    IN IF 2 * r < p THEN q * p ELSE IF 2 * r > p THEN (q + 1) * p ELSE IF (q % 2) = 0 THEN q * p ELSE (q + 1) * p

(* ---- int() of a string: optional blanks, sign, ASCII digits (other spellings are left to the environment) ---- *)
Digit(c) == c \in 48..57
RECURSIVE DigitsToLimbInt(_, _)
DigitsToLimbInt(s, acc) == IF s = <<>> THEN acc
                           ELSE LET nxt == IntAdd(IntMul(acc, OfInt(10)), OfInt(Head(s) - 48)) IN DigitsToLimbInt(Tail(s), nxt)
RECURSIVE StripBlanks(_)
StripBlanks(s) == IF s # <<>> /\ Head(s) \in {32, 9, 10, 13} THEN StripBlanks(Tail(s))
                  ELSE IF s # <<>> /\ s[Len(s)] \in {32, 9, 10, 13} THEN StripBlanks(SubSeq(s, 1, Len(s) - 1)) ELSE s
SimpleNumeral(s) == LET t == StripBlanks(s)
                        body == IF t # <<>> /\ Head(t) \in {43, 45} THEN Tail(t) ELSE t
                    IN body # <<>> /\ \A i \in 1..Len(body) : Digit(body[i])
NumeralValue(s) == LET t == StripBlanks(s)
                       neg == t # <<>> /\ Head(t) = 45
                       body == IF t # <<>> /\ Head(t) \in {43, 45} THEN Tail(t) ELSE t
                       v == DigitsToLimbInt(body, OfInt(0))
                   IN IF neg THEN IntNeg(v) ELSE v
\* clearly not a numeral: only ASCII letters other than those of "inf", "nan", "e", "_"... - keep it simple: contains an ASCII letter
HasLetter(s) == \E i \in 1..Len(s) : s[i] \in 65..90 \/ s[i] \in 97..122

(* ---- the functions ----------------------------------------------------- *)
Err(c) == <<"e", c>>
Unmodelled == <<"unmodelled">>

MaxOf(a, b) ==      \* max_: `if b > a: b else a` through the engine's own `>`
    IF Dispatch("gt", Kind(a), Kind(b)) = "none" THEN NoMatch
    ELSE IF IsNull(a) THEN b ELSE IF IsNull(b) THEN a
    ELSE IF IsInt(a) /\ IsInt(b) THEN (IF IntCmp(b, a) > 0 THEN b ELSE a)
    ELSE IF IsStr(a) /\ IsStr(b) THEN (IF SeqLess(a[2], b[2]) THEN b ELSE a)
    ELSE Unmodelled
MinOf(a, b) ==
    IF Dispatch("gt", Kind(a), Kind(b)) = "none" THEN NoMatch
    ELSE IF IsNull(a) THEN a ELSE IF IsNull(b) THEN b
    ELSE IF IsInt(a) /\ IsInt(b) THEN (IF IntCmp(b, a) > 0 THEN a ELSE b)
    ELSE IF IsStr(a) /\ IsStr(b) THEN (IF SeqLess(a[2], b[2]) THEN a ELSE b)
    ELSE Unmodelled

Bitwise2(x, y, Op(_, _)) ==
    IF ~(PlainInt(x) /\ PlainInt(y)) THEN NoMatch
    ELSE IF ~(PlainSmall(x) /\ PlainSmall(y)) THEN Unmodelled
    ELSE IF IsBool(x) /\ IsBool(y) THEN Bool(Op(x[2], y[2]) = 1)        \* the host language keeps two booleans boolean
    ELSE OfInt(Op(PlainNative(x), PlainNative(y)))

Shift(x, n, left) ==
    IF ~(PlainInt(x) /\ PlainInt(n)) THEN NoMatch
    ELSE IF ~(PlainSmall(x) /\ PlainSmall(n)) THEN Unmodelled
    ELSE IF PlainNative(n) < 0 THEN Err("ValueError")
    ELSE IF PlainNative(n) > 20 \/ PlainNative(x) > 1000 \/ PlainNative(x) < -1000 THEN Unmodelled      \* keeps TLC's integers in range
    ELSE OfInt(IF left THEN ShiftLeft(PlainNative(x), PlainNative(n)) ELSE ShiftRight(PlainNative(x), PlainNative(n)))

\* args: sequence of values; result expected by the model (a value, an error, or Unmodelled)
MathModel(fn, a) ==
    CASE fn = "bitwiseAnd" -> Bitwise2(a[1], a[2], BitAnd)
      [] fn = "bitwiseOr"  -> Bitwise2(a[1], a[2], BitOr)
      [] fn = "bitwiseXor" -> Bitwise2(a[1], a[2], BitXor)
      [] fn = "bitwiseNot" -> IF ~PlainInt(a[1]) THEN NoMatch
                              ELSE IF IsBool(a[1]) THEN OfInt(BitNot(a[1][2])) ELSE IntSub(IntNeg(a[1]), OfInt(1))
      [] fn = "shiftBitsLeft"  -> Shift(a[1], a[2], TRUE)
      [] fn = "shiftBitsRight" -> Shift(a[1], a[2], FALSE)
      [] fn = "abs"  -> IF ~IsNum(a[1]) THEN NoMatch ELSE IF IsInt(a[1]) THEN MkInt(Sgn(a[1]) * Sgn(a[1]), Mag(a[1])) ELSE Unmodelled
      [] fn = "sign" -> IF ~IsNum(a[1]) THEN NoMatch ELSE IF IsInt(a[1]) THEN OfInt(Sgn(a[1])) ELSE Unmodelled
      [] fn = "isInteger" -> Bool(IsInt(a[1]))
      [] fn = "isNumber"  -> Bool(IsNum(a[1]))
      [] fn = "max" -> MaxOf(a[1], a[2])
      [] fn = "min" -> MinOf(a[1], a[2])
      [] fn = "int" -> IF IsNull(a[1]) THEN OfInt(0)
                       ELSE IF IsBool(a[1]) THEN OfInt(a[1][2])
                       ELSE IF IsInt(a[1]) THEN a[1]
                       ELSE IF IsStr(a[1]) THEN (IF SimpleNumeral(a[1][2]) THEN NumeralValue(a[1][2])
                                                 ELSE IF StripBlanks(a[1][2]) = <<>> THEN Err("ValueError") ELSE Unmodelled)
                       ELSE Unmodelled
      [] fn = "pow" -> IF ~(IsNum(a[1]) /\ IsNum(a[2])) THEN NoMatch
                       ELSE IF ~(IsInt(a[1]) /\ IsInt(a[2])) THEN Unmodelled
                       ELSE IF Sgn(a[2]) < 0 THEN (IF Sgn(a[1]) = 0 THEN Err("ZeroDivisionError") ELSE Unmodelled)     \* a float
                       ELSE IF ~Small(a[2]) \/ ToNative(a[2]) > 40 \/ Len(Mag(a[1])) * ToNative(a[2]) > 24 THEN Unmodelled        \* (cost of the limb product)
                       ELSE IntPow(a[1], ToNative(a[2]))
      [] fn = "powmod" -> IF ~(IsNum(a[1]) /\ IsNum(a[2]) /\ IsNum(a[3])) THEN NoMatch
                          ELSE IF ~(IsInt(a[1]) /\ IsInt(a[2]) /\ IsInt(a[3])) THEN Unmodelled
                          ELSE IF Sgn(a[3]) = 0 THEN Err("ValueError")
                          ELSE IF Sgn(a[3]) < 0 \/ Sgn(a[2]) < 0 THEN Unmodelled
                          ELSE IF ~(Small(a[1]) /\ Small(a[2]) /\ Small(a[3])) \/ ToNative(a[2]) > 60 \/ Nat2(a[3]) > 10000 THEN Unmodelled
                          ELSE OfInt(NatPowMod(ToNative(a[1]), ToNative(a[2]), ToNative(a[3])))
      [] fn = "round" -> IF ~(IsNum(a[1]) /\ PlainInt(a[2])) THEN NoMatch
                         ELSE IF ~IsInt(a[1]) THEN Unmodelled
                         ELSE IF PlainNative(a[2]) >= 0 THEN a[1]
                         ELSE IF ~Small(a[1]) \/ PlainNative(a[2]) < -8 THEN Unmodelled
                         ELSE OfInt(RoundTo(ToNative(a[1]), Pow10(0 - PlainNative(a[2]))))
      [] OTHER -> Unmodelled

MathVerdict(fn, a, r) ==
    LET m == MathModel(fn, a)
    IN IF m = Unmodelled THEN "skip:unmodelled" ELSE IF r = m THEN "ok" ELSE "math:" \o fn

(* ---- model-level sanity (M) ------------------------------------------- *)
BitSanity(R) ==
    \A x, y \in R : /\ x = (2 * (x \div 2)) + (x % 2)
                    /\ BitAnd(x, y) = BitAnd(y, x) /\ BitOr(x, y) = BitOr(y, x) /\ BitXor(x, y) = BitXor(y, x)
                    /\ BitNot(BitAnd(x, y)) = BitOr(BitNot(x), BitNot(y))            \* De Morgan
                    /\ BitXor(x, y) = BitAnd(BitOr(x, y), BitNot(BitAnd(x, y)))
                    /\ BitAnd(x, y) + BitOr(x, y) = x + y
                    /\ BitXor(x, x) = 0 /\ BitAnd(x, x) = x /\ BitOr(x, 0) = x
                    /\ ((x >= 0 /\ y >= 0) => (BitAnd(x, y) >= 0 /\ BitAnd(x, y) <= x /\ BitOr(x, y) >= x))
                    /\ ShiftRight(ShiftLeft(x, 3), 3) = x
RoundSanity(R) ==
    \A x \in R : /\ (RoundTo(x, 10) % 10) = 0
                 /\ (x - RoundTo(x, 10)) \in -5..5
                 /\ ((x % 10) = 5 => ((RoundTo(x, 10) \div 10) % 2) = 0)
                 /\ RoundTo(0 - x, 10) = 0 - RoundTo(x, 10)
PowSanity(R) == \A x \in R : \A n \in 0..4 : /\ IntPow(OfInt(x), n + 1) = IntMul(IntPow(OfInt(x), n), OfInt(x))
                                              /\ (\A m \in 1..7 : NatPowMod(x, n, m) = (ToNative(IntPow(OfInt(x), n)) % m))
=============================================================================
