------------------------- MODULE Trace_EngineParse -------------------------
(***************************************************************************)
(* Validates lexer-usage traces recorded from free-running threads that    *)
(* parse with one real YaqlEngine against the ownership discipline of      *)
(* EngineParse.tla (NoSharedLexer): a lexer object is used by one parse at *)
(* a time, and every token fetch continues from the cursor that the same   *)
(* parse left behind, on the text that parse loaded.                       *)
(*                                                                         *)
(* Events (NDJSON, global order = harness sequence number, written under   *)
(* the recorder's lock):                                                   *)
(*   Begin  p, lx, txt          Lexer.input(text) by parse p on lexer lx   *)
(*   Fetch  p, lx, txt, p0, p1  one Lexer.token() call: lexdata identity   *)
(*                              and lexpos before and after                *)
(*   End    p                   the parse call returned or raised          *)
(*   tr     trace id (a new trace starts from the empty state)             *)
(***************************************************************************)
EXTENDS Naturals, Sequences, FiniteSets, TLC, Json, IOUtils

TraceLog == ndJsonDeserialize(IOEnv.TRACE_FILE)

VARIABLES pos, running, cursor, cur
\* running : set of records [p, lx, txt]  - parses between Begin and End
\* cursor  : function p -> lexpos left by p's own last step (as a set of pairs)
tvars == <<pos, running, cursor, cur>>

E == TraceLog[pos]
Reject(clause) == PrintT(<<"REJECT", E.tr, E.seq, clause>>)
Check(b, clause) == IF b THEN TRUE ELSE Reject(clause)

Init == pos = 1 /\ running = {} /\ cursor = {} /\ cur = 0

Fresh == pos = 1 \/ TraceLog[pos].tr # cur
R0 == IF Fresh THEN {} ELSE running
C0 == IF Fresh THEN {} ELSE cursor

CursorOf(c, p) == {x[2] : x \in {y \in c : y[1] = p}}

Next ==
    /\ pos <= Len(TraceLog)
    /\ pos' = pos + 1
    /\ cur' = E.tr
    /\ CASE E.ev = "Begin" ->
              \* discipline: nobody else is running on this lexer object
              /\ Check(\A r \in R0 : r.p # E.p => r.lx # E.lx, "NoSharedLexer")
              /\ running' = {r \in R0 : r.p # E.p} \cup {[p |-> E.p, lx |-> E.lx, txt |-> E.txt]}
              /\ cursor' = {x \in C0 : x[1] # E.p} \cup {<<E.p, 0>>}
         [] E.ev = "Fetch" ->
              /\ Check(\E r \in R0 : r.p = E.p /\ r.lx = E.lx, "FetchOnOwnLexer")
              /\ Check(\E r \in R0 : r.p = E.p /\ r.txt = E.txt, "LexerHoldsOwnText")
              /\ Check(CursorOf(C0, E.p) = {E.p0}, "OwnCursor")
              /\ Check(E.p1 >= E.p0, "CursorMonotone")
              /\ running' = R0
              /\ cursor' = {x \in C0 : x[1] # E.p} \cup {<<E.p, E.p1>>}
         [] E.ev = "End" ->
              /\ running' = {r \in R0 : r.p # E.p}
              /\ cursor' = {x \in C0 : x[1] # E.p}

TraceSpec == Init /\ [][Next]_tvars
TraceAccepted == TLCGet("stats").diameter - 1 = Len(TraceLog)
=============================================================================
