------------------------------ MODULE Convert ------------------------------
(***************************************************************************)
(* Conversion of host data into yaql values and finalisation of results    *)
(* into plain data (C10); size limits applied during finalisation (C08).   *)
(*                                                                         *)
(* A value is a tree [k, ch, v]:                                           *)
(*   k  kind: "scalar" | "list" | "tuple" | "set" | "frozenset" | "dict" | *)
(*      "frozendict" | "keysview" | "valuesview" | "itemsview" |           *)
(*      "generator" | "mapobj" | "ordering"                                *)
(*   ch children: a sequence of trees; for the five mapping-based kinds a  *)
(*      sequence of <<key tree, value tree>> pairs                         *)
(*   v  the scalar's value ("" for containers)                             *)
(***************************************************************************)
EXTENDS Integers, Sequences, FiniteSets, TLC

MapKinds  == {"dict", "frozendict"}
ViewKinds == {"keysview", "valuesview", "itemsview"}
SetKinds  == {"set", "frozenset"}
SeqKinds  == {"list", "tuple"}
IterKinds == {"generator", "mapobj", "ordering"}
Kinds == {"scalar"} \cup MapKinds \cup ViewKinds \cup SetKinds \cup SeqKinds \cup IterKinds

Scalar(v) == [k |-> "scalar", ch |-> <<>>, v |-> v]
Node(k, ch) == [k |-> k, ch |-> ch, v |-> ""]

\* can the Python object exist as a dict key / set element?
RECURSIVE Hashable(_)
Hashable(t) ==
    CASE t.k = "scalar" -> TRUE
      [] t.k = "tuple" -> \A i \in 1..Len(t.ch) : Hashable(t.ch[i])
      [] t.k = "frozenset" -> TRUE
      [] t.k = "frozendict" -> \A i \in 1..Len(t.ch) : Hashable(t.ch[i][2])
      [] OTHER -> FALSE

(***************************************************************************)
(* Finalize(t, t2l, s2l): what '#finalize' must produce under the options  *)
(* convertTuplesToLists = t2l, convertSetsToLists = s2l.                   *)
(* Result [ok, t, why]: ok = FALSE when no plain representation exists     *)
(* (a converted key or set element is not hashable) - why names the reason.*)
(***************************************************************************)
Ok(t) == [ok |-> TRUE, t |-> t, why |-> ""]
No(why) == [ok |-> FALSE, t |-> Scalar("none"), why |-> why]

\* is a finalised tree hashable (usable as key / set element)?
RECURSIVE PlainHashable(_)
PlainHashable(t) == CASE t.k = "scalar" -> TRUE
                      [] t.k = "tuple" -> \A i \in 1..Len(t.ch) : PlainHashable(t.ch[i])
                      [] OTHER -> FALSE

RECURSIVE Finalize(_, _, _), FinSeq(_, _, _), FinPairs(_, _, _)
\* children one by one; the first failure wins
FinSeq(ch, t2l, s2l) ==
    IF ch = <<>> THEN [ok |-> TRUE, ts |-> <<>>, why |-> ""]
    ELSE LET h == Finalize(Head(ch), t2l, s2l)
             r == FinSeq(Tail(ch), t2l, s2l)
         IN IF ~h.ok THEN [ok |-> FALSE, ts |-> <<>>, why |-> h.why]
            ELSE IF ~r.ok THEN r ELSE [ok |-> TRUE, ts |-> <<h.t>> \o r.ts, why |-> ""]
FinPairs(ch, t2l, s2l) ==
    IF ch = <<>> THEN [ok |-> TRUE, ts |-> <<>>, why |-> ""]
    ELSE LET k == Finalize(Head(ch)[1], t2l, s2l)
             v == Finalize(Head(ch)[2], t2l, s2l)
             r == FinPairs(Tail(ch), t2l, s2l)
         IN IF ~k.ok THEN [ok |-> FALSE, ts |-> <<>>, why |-> k.why]
            ELSE IF ~PlainHashable(k.t) THEN [ok |-> FALSE, ts |-> <<>>, why |-> "dict-key:" \o Head(ch)[1].k]
            ELSE IF ~v.ok THEN [ok |-> FALSE, ts |-> <<>>, why |-> v.why]
            ELSE IF ~r.ok THEN r ELSE [ok |-> TRUE, ts |-> <<<<k.t, v.t>>>> \o r.ts, why |-> ""]

Keys(ch)   == [i \in 1..Len(ch) |-> ch[i][1]]
Values(ch) == [i \in 1..Len(ch) |-> ch[i][2]]
Items(ch)  == [i \in 1..Len(ch) |-> Node("tuple", <<ch[i][1], ch[i][2]>>)]

Finalize(t, t2l, s2l) ==
    CASE t.k = "scalar" -> Ok(t)
      [] t.k \in MapKinds ->
            LET r == FinPairs(t.ch, t2l, s2l) IN IF r.ok THEN Ok(Node("dict", r.ts)) ELSE No(r.why)
      [] t.k \in SetKinds ->
            LET r == FinSeq(t.ch, t2l, s2l)
            IN IF ~r.ok THEN No(r.why)
               ELSE IF s2l THEN Ok(Node("ulist", r.ts))          \* a list in unspecified order
               ELSE IF \E i \in 1..Len(r.ts) : ~PlainHashable(r.ts[i])
                    THEN No("set-element:" \o t.ch[CHOOSE i \in 1..Len(r.ts) : ~PlainHashable(r.ts[i])].k)
               ELSE Ok(Node("set", r.ts))
      [] t.k \in SeqKinds ->
            LET r == FinSeq(t.ch, t2l, s2l)
            IN IF ~r.ok THEN No(r.why) ELSE Ok(Node(IF t2l THEN "list" ELSE t.k, r.ts))
      [] t.k \in IterKinds ->
            LET r == FinSeq(t.ch, t2l, s2l) IN IF ~r.ok THEN No(r.why) ELSE Ok(Node("list", r.ts))
      \* dict views are finalised as lists of keys / values / [key, value] pairs
      [] t.k = "keysview"   -> LET r == FinSeq(Keys(t.ch), t2l, s2l)   IN IF ~r.ok THEN No(r.why) ELSE Ok(Node("list", r.ts))
      [] t.k = "valuesview" -> LET r == FinSeq(Values(t.ch), t2l, s2l) IN IF ~r.ok THEN No(r.why) ELSE Ok(Node("list", r.ts))
      [] t.k = "itemsview"  -> LET r == FinSeq(Items(t.ch), t2l, s2l)  IN IF ~r.ok THEN No(r.why) ELSE Ok(Node("list", r.ts))

\* C10 P3: plain data only
RECURSIVE Plain(_, _, _)
Plain(t, t2l, s2l) ==
    CASE t.k = "scalar" -> TRUE
      [] t.k = "dict" -> \A i \in 1..Len(t.ch) : Plain(t.ch[i][1], t2l, s2l) /\ Plain(t.ch[i][2], t2l, s2l)
      [] t.k \in {"list", "ulist"} -> \A i \in 1..Len(t.ch) : Plain(t.ch[i], t2l, s2l)
      [] t.k = "tuple" -> ~t2l /\ \A i \in 1..Len(t.ch) : Plain(t.ch[i], t2l, s2l)
      [] t.k = "set" -> ~s2l /\ \A i \in 1..Len(t.ch) : Plain(t.ch[i], t2l, s2l)
      [] OTHER -> FALSE

\* on the model: whatever Finalize returns is plain
FinalizeIsPlain(t, t2l, s2l) == LET r == Finalize(t, t2l, s2l) IN r.ok => Plain(r.t, t2l, s2l)

(***************************************************************************)
(* Input conversion (convert_input_data): host containers become immutable *)
(* yaql values; then `$` is finalised.  Canonical container of a host      *)
(* document = Finalize(ConvertIn(doc)).                                    *)
(***************************************************************************)
RECURSIVE ConvertIn(_)
ConvertIn(t) ==
    CASE t.k = "scalar" -> t
      [] t.k \in SeqKinds -> Node("tuple", [i \in 1..Len(t.ch) |-> ConvertIn(t.ch[i])])
      [] t.k \in MapKinds -> Node("frozendict", [i \in 1..Len(t.ch) |-> <<ConvertIn(t.ch[i][1]), ConvertIn(t.ch[i][2])>>])
      [] t.k = "set" -> Node("frozenset", [i \in 1..Len(t.ch) |-> ConvertIn(t.ch[i])])
      [] t.k = "frozenset" -> t            \* not a MutableSet: falls through to the generic-iterable or leaf case; see note in check
      [] t.k \in IterKinds -> Node("mapobj", [i \in 1..Len(t.ch) |-> ConvertIn(t.ch[i])])
      [] OTHER -> t

(***************************************************************************)
(* Limits (C08 P2): with limitIterators = N every collection met during    *)
(* finalisation has at most N elements, else CollectionTooLarge.           *)
(***************************************************************************)
RECURSIVE MaxWidth(_)
MaxWidth(t) ==
    IF t.k = "scalar" THEN 0
    ELSE LET n == Len(t.ch)
             sub == IF t.k \in MapKinds \cup ViewKinds
                    THEN {MaxWidth(t.ch[i][1]) : i \in 1..n} \cup {MaxWidth(t.ch[i][2]) : i \in 1..n}
                    ELSE {MaxWidth(t.ch[i]) : i \in 1..n}
             sub2 == IF t.k = "itemsview" /\ n > 0 THEN sub \cup {2} ELSE sub       \* items are [key, value] pairs
             m == IF sub2 = {} THEN 0 ELSE CHOOSE x \in sub2 : \A y \in sub2 : x >= y
         IN IF n > m THEN n ELSE m
TooLarge(t, N) == N >= 0 /\ MaxWidth(t) > N
=============================================================================
