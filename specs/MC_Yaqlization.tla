--------------------------- MODULE MC_Yaqlization ---------------------------
EXTENDS Yaqlization
CONSTANTS MaxList, SwitchSets
MCNames == {"pub", "pub2", "_priv", "__dunder__", "src", "dst", "listed"}
MCPrivate == {"_priv", "__dunder__"}
MCEntries == {"E1", "E2", "E3", "E4", "E5", "E6"}
MCMatches == [e \in MCEntries |->
    CASE e = "E1" -> {"pub"}                        \* string entry "pub"
      [] e = "E2" -> {"pub", "pub2", "_priv"}       \* regex "p" (search semantics)
      [] e = "E3" -> {"listed", "dst"}              \* predicate
      [] e = "E4" -> {"src"}                        \* string entry "src"
      [] e = "E5" -> {"_priv", "__dunder__"}        \* regex "^_"
      [] e = "E6" -> {"pub", "pub2"}]               \* regex "ub" - search semantics: matches in the middle of a name
Lists == {x \in SUBSET MCEntries : Cardinality(x) <= MaxList}
Settings == {s \in [attrs : BOOLEAN, methods : BOOLEAN, indexer : BOOLEAN, wl : Lists, bl : Lists, remap : BOOLEAN, blr : BOOLEAN] :
                <<s.attrs, s.methods, s.indexer>> \in SwitchSets /\ (~s.remap => s.blr)}
VARIABLES s, form, name, dec
vars == <<s, form, name, dec>>
Init == /\ s \in Settings /\ form \in Forms /\ name \in MCNames /\ dec = Decision(s, form, name)
Next == UNCHANGED vars
Spec == Init /\ [][Next]_vars
SameAcrossForms == SameDecisionAcrossForms(s)
NoPrivate == PrivateNeverReached(s) /\ PrivateNotRemapTarget
=============================================================================
