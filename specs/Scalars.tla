------------------------------ MODULE Scalars ------------------------------
(***************************************************************************)
(* Scalar operators of yaql on null, booleans, integers, floats, strings   *)
(* (C15): which operator family answers a pair of kinds (Dispatch), exact  *)
(* integer arithmetic at any magnitude (limb arithmetic), flooring         *)
(* division identity, float arithmetic for mixed operands (the float       *)
(* result itself is an environment oracle: CPython), and a consistent      *)
(* ordering with null lowest.                                              *)
(*                                                                         *)
(* Values (as logged by the harness, ASCII JSON):                          *)
(*   <<"n">>  <<"b", 0|1>>  <<"i", sign, limbs>> (base 10^4, least         *)
(*   significant first, sign in {-1,0,1})  <<"f", repr>>  <<"s", cps>>     *)
(*   <<"e", class>> an exception   <<"skip">> not evaluated                *)
(***************************************************************************)
EXTENDS Integers, Sequences, FiniteSets, TLC

Base == 10000

Kind(v) == v[1]
IsInt(v) == v[1] = "i"
IsFloat(v) == v[1] = "f"
IsNum(v) == v[1] \in {"i", "f"}
IsStr(v) == v[1] = "s"
IsNull(v) == v[1] = "n"
IsBool(v) == v[1] = "b"
IsErr(v) == v[1] = "e"
NoMatch == <<"e", "NoMatch">>
Bool(b) == <<"b", IF b THEN 1 ELSE 0>>

Kinds == {"n", "b", "i", "f", "s"}
ArithOps == {"add", "sub", "mul", "div", "mod"}
OrderOps == {"lt", "le", "gt", "ge"}
EqOps == {"eq", "ne"}
Ops == ArithOps \cup OrderOps \cup EqOps

(***************************************************************************)
(* Which overload family answers `a op b` for operand kinds ka, kb.        *)
(*   "num"  numeric overload (Number(): int or float, never bool)          *)
(*   "str"  string overload (concatenation, string ordering)               *)
(*   "rep"  repetition  string * int / int * string (int: never bool)      *)
(*   "null" one of the null-ordering overloads                             *)
(*   "any"  equality, defined for every pair                               *)
(*   "none" no overload: NoMatchingFunctionException                       *)
(***************************************************************************)
NumK(k) == k \in {"i", "f"}
Dispatch(op, ka, kb) ==
    IF op \in EqOps THEN "any"
    ELSE IF op \in OrderOps THEN
        (IF ka = "n" \/ kb = "n" THEN "null"
         ELSE IF NumK(ka) /\ NumK(kb) THEN "num"
         ELSE IF ka = "s" /\ kb = "s" THEN "str" ELSE "none")
    ELSE IF NumK(ka) /\ NumK(kb) THEN "num"
    ELSE IF op = "add" /\ ka = "s" /\ kb = "s" THEN "str"
    ELSE IF op = "mul" /\ ((ka = "s" /\ kb = "i") \/ (ka = "i" /\ kb = "s")) THEN "rep"
    ELSE "none"

UnaryDispatch(k) == IF NumK(k) THEN "num" ELSE "none"

(* ---- limb arithmetic on naturals (sequences of base-10^4 digits) ------ *)
RECURSIVE Strip(_)
Strip(x) == IF x # <<>> /\ x[Len(x)] = 0 THEN Strip(SubSeq(x, 1, Len(x) - 1)) ELSE x

RECURSIVE AddC(_, _, _)
AddC(x, y, c) ==
    IF x = <<>> /\ y = <<>> THEN (IF c = 0 THEN <<>> ELSE <<c>>)
    ELSE LET dx == IF x = <<>> THEN 0 ELSE Head(x)
             dy == IF y = <<>> THEN 0 ELSE Head(y)
             s == dx + dy + c
         IN <<s % Base>> \o AddC(IF x = <<>> THEN <<>> ELSE Tail(x), IF y = <<>> THEN <<>> ELSE Tail(y), s \div Base)
NatAdd(x, y) == Strip(AddC(x, y, 0))

RECURSIVE CmpFrom(_, _, _)
CmpFrom(x, y, i) == IF i = 0 THEN 0 ELSE IF x[i] < y[i] THEN -1 ELSE IF x[i] > y[i] THEN 1 ELSE CmpFrom(x, y, i - 1)
NatCmp(x, y) == IF Len(x) < Len(y) THEN -1 ELSE IF Len(x) > Len(y) THEN 1 ELSE CmpFrom(x, y, Len(x))

RECURSIVE SubB(_, _, _)
\* x - y for x >= y
SubB(x, y, b) ==
    IF x = <<>> THEN <<>>
    ELSE LET dy == IF y = <<>> THEN 0 ELSE Head(y)
             d == Head(x) - dy - b
         IN <<IF d < 0 THEN d + Base ELSE d>> \o SubB(Tail(x), IF y = <<>> THEN <<>> ELSE Tail(y), IF d < 0 THEN 1 ELSE 0)
NatSub(x, y) == Strip(SubB(x, y, 0))

RECURSIVE MulDigit(_, _, _)
MulDigit(x, d, c) ==
    IF x = <<>> THEN (IF c = 0 THEN <<>> ELSE <<c>>)
    ELSE LET p == Head(x) * d + c IN <<p % Base>> \o MulDigit(Tail(x), d, p \div Base)
RECURSIVE NatMul(_, _)
NatMul(x, y) == IF y = <<>> THEN <<>>
                ELSE LET rest == NatMul(x, Tail(y))        \* (bound once: the recursion must stay linear in the number of limbs)
                     IN NatAdd(Strip(MulDigit(x, Head(y), 0)), IF rest = <<>> THEN <<>> ELSE <<0>> \o rest)

(* ---- signed integers <<"i", sign, limbs>> ----------------------------- *)
\* (TLC re-evaluates an operator argument at every use: anything used twice is bound with LET, which is evaluated once)
MkInt(sign, limbs) == LET l == Strip(limbs) IN IF l = <<>> THEN <<"i", 0, <<>>>> ELSE <<"i", sign, l>>
Sgn(a) == a[2]
Mag(a) == a[3]
IntNeg(a) == MkInt(0 - Sgn(a), Mag(a))
IntAdd(a0, b0) ==
    LET a == a0  b == b0 IN
    IF Sgn(a) = 0 THEN b ELSE IF Sgn(b) = 0 THEN a
    ELSE IF Sgn(a) = Sgn(b) THEN MkInt(Sgn(a), NatAdd(Mag(a), Mag(b)))
    ELSE LET c == NatCmp(Mag(a), Mag(b))
         IN IF c = 0 THEN MkInt(0, <<>>)
            ELSE IF c > 0 THEN MkInt(Sgn(a), NatSub(Mag(a), Mag(b))) ELSE MkInt(Sgn(b), NatSub(Mag(b), Mag(a)))
IntSub(a, b) == IntAdd(a, IntNeg(b))
IntMul(a0, b0) == LET a == a0  b == b0 IN MkInt(Sgn(a) * Sgn(b), NatMul(Mag(a), Mag(b)))
IntCmp(a, b) ==
    IF Sgn(a) # Sgn(b) THEN (IF Sgn(a) < Sgn(b) THEN -1 ELSE 1)
    ELSE IF Sgn(a) = 0 THEN 0 ELSE Sgn(a) * NatCmp(Mag(a), Mag(b))
WellFormedInt(a) == /\ Sgn(a) \in {-1, 0, 1}
                    /\ (Sgn(a) = 0) = (Mag(a) = <<>>)
                    /\ (Mag(a) # <<>> => Mag(a)[Len(Mag(a))] # 0)
                    /\ \A i \in 1..Len(Mag(a)) : Mag(a)[i] \in 0..(Base - 1)

(* ---- strings ---------------------------------------------------------- *)
RECURSIVE SeqLess(_, _)
SeqLess(x, y) == IF y = <<>> THEN FALSE ELSE IF x = <<>> THEN TRUE
                 ELSE IF Head(x) < Head(y) THEN TRUE ELSE IF Head(x) > Head(y) THEN FALSE
                 ELSE SeqLess(Tail(x), Tail(y))
RECURSIVE Repeat(_, _)
Repeat(s, n) == IF n <= 0 THEN <<>> ELSE s \o Repeat(s, n - 1)
SmallInt(a) == IF Sgn(a) = 0 THEN 0 ELSE Sgn(a) * Mag(a)[1]      \* for |a| < 10^4

(***************************************************************************)
(* Laws an event (one ordered pair a, b with the results of all operators, *)
(* r[op], the reversed comparisons r.rlt = (b < a), r.rgt = (b > a), and   *)
(* CPython's own float results py[op] for operands involving a float) must *)
(* satisfy.  Verdict = name of the first failing clause, or "ok".          *)
(***************************************************************************)
AsBool(v) == v[2] = 1
IsBoolRes(v) == v[1] = "b"

DispatchOk(a, b, r, op) ==
    (Dispatch(op, Kind(a), Kind(b)) = "none") = (r[op] = NoMatch)

IntArithOk(a, b, r) ==
    (IsInt(a) /\ IsInt(b)) =>
        /\ r.add = IntAdd(a, b)
        /\ r.sub = IntSub(a, b)
        /\ r.mul = IntMul(a, b)

\* `/` on two integers floors; a = (a / b) * b + (a mod b); remainder has the divisor's sign and is smaller
FloorDivOk(a, b, r) ==
    (IsInt(a) /\ IsInt(b)) =>
        IF Sgn(b) = 0 THEN r.div = <<"e", "ZeroDivisionError">> /\ r.mod = <<"e", "ZeroDivisionError">>
        ELSE /\ IsInt(r.div) /\ IsInt(r.mod) /\ WellFormedInt(r.div) /\ WellFormedInt(r.mod)
             /\ IntAdd(IntMul(r.div, b), r.mod) = a
             /\ (Sgn(r.mod) = 0 \/ Sgn(r.mod) = Sgn(b))
             /\ NatCmp(Mag(r.mod), Mag(b)) < 0

\* an operand is a float: the result is CPython's float result (value or error), and a value is a float
FloatArithOk(a, b, r, py) ==
    (IsNum(a) /\ IsNum(b) /\ (IsFloat(a) \/ IsFloat(b))) =>
        \A op \in ArithOps : r[op] = py[op] /\ (~IsErr(r[op]) => IsFloat(r[op]))

OrderShapeOk(a, b, r) ==
    \A op \in OrderOps \cup {"rlt", "rgt"} :
        LET o == IF op \in {"rlt", "rgt"} THEN "lt" ELSE op
        IN Dispatch(o, Kind(a), Kind(b)) # "none" => IsBoolRes(r[op])

\* mutual consistency wherever ordering is defined between the two operands
OrderConsistentOk(a, b, r) ==
    (Dispatch("lt", Kind(a), Kind(b)) # "none" /\ \A op \in OrderOps \cup {"rlt", "rgt", "eq"} : IsBoolRes(r[op])) =>
        LET lt == AsBool(r.lt)  gt == AsBool(r.gt)  le == AsBool(r.le)  ge == AsBool(r.ge)  eq == AsBool(r.eq)
        IN /\ gt = AsBool(r.rlt)                     \* a > b iff b < a
           /\ lt = AsBool(r.rgt)
           /\ le = (lt \/ eq)
           /\ ge = (gt \/ eq)
           /\ Cardinality({x \in {"lt", "eq", "gt"} : AsBool(r[x])}) = 1     \* exactly one of <, =, >

\* correctness of the ordering where the model can compute it
IntOrderOk(a, b, r) == (IsInt(a) /\ IsInt(b)) => /\ AsBool(r.lt) = (IntCmp(a, b) < 0)
                                                 /\ AsBool(r.eq) = (IntCmp(a, b) = 0)
StrOrderOk(a, b, r) == (IsStr(a) /\ IsStr(b)) => /\ AsBool(r.lt) = SeqLess(a[2], b[2])
                                                 /\ AsBool(r.eq) = (a[2] = b[2])
                                                 /\ r.add = <<"s", a[2] \o b[2]>>
\* null is below every non-null value (booleans included), equal to itself
NullOrderOk(a, b, r) ==
    /\ (IsNull(a) /\ ~IsNull(b)) => (AsBool(r.lt) /\ AsBool(r.le) /\ ~AsBool(r.gt) /\ ~AsBool(r.ge) /\ ~AsBool(r.eq))
    /\ (~IsNull(a) /\ IsNull(b)) => (~AsBool(r.lt) /\ ~AsBool(r.le) /\ AsBool(r.gt) /\ AsBool(r.ge) /\ ~AsBool(r.eq))
    /\ (IsNull(a) /\ IsNull(b)) => (~AsBool(r.lt) /\ AsBool(r.le) /\ ~AsBool(r.gt) /\ AsBool(r.ge) /\ AsBool(r.eq))

EqOk(a, b, r) == /\ IsBoolRes(r.eq) /\ IsBoolRes(r.ne) /\ AsBool(r.ne) = ~AsBool(r.eq)
                 /\ (Kind(a) # Kind(b) /\ ~(Kind(a) \in {"b", "i", "f"} /\ Kind(b) \in {"b", "i", "f"})) => ~AsBool(r.eq)

\* repetition (evaluated by the harness only for small counts)
RepeatOk(a, b, r) ==
    /\ (IsStr(a) /\ IsInt(b) /\ r.mul # <<"skip">>) => r.mul = <<"s", Repeat(a[2], SmallInt(b))>>
    /\ (IsInt(a) /\ IsStr(b) /\ r.mul # <<"skip">>) => r.mul = <<"s", Repeat(b[2], SmallInt(a))>>

PairVerdict(a, b, r, py) ==
    IF \E op \in Ops : ~DispatchOk(a, b, r, op) THEN "dispatch"
    ELSE IF ~IntArithOk(a, b, r) THEN "int-exact"
    ELSE IF ~FloorDivOk(a, b, r) THEN "floor-division-identity"
    ELSE IF ~FloatArithOk(a, b, r, py) THEN "float-arithmetic"
    ELSE IF ~EqOk(a, b, r) THEN "equality"
    ELSE IF ~OrderShapeOk(a, b, r) THEN "ordering-result-kind"
    ELSE IF ~OrderConsistentOk(a, b, r) THEN "ordering-consistency"
    ELSE IF ~IntOrderOk(a, b, r) THEN "int-ordering"
    ELSE IF ~StrOrderOk(a, b, r) THEN "string-ordering-concat"
    ELSE IF ~NullOrderOk(a, b, r) THEN "null-lowest"
    ELSE IF ~RepeatOk(a, b, r) THEN "repetition"
    ELSE "ok"

\* unary + and -
UnaryVerdict(a, r) ==
    IF (UnaryDispatch(Kind(a)) = "none") # (r.pos = NoMatch) \/ (UnaryDispatch(Kind(a)) = "none") # (r.neg = NoMatch) THEN "dispatch"
    ELSE IF IsInt(a) /\ ~(r.pos = a /\ r.neg = IntNeg(a)) THEN "int-exact"
    ELSE IF IsFloat(a) /\ ~(IsFloat(r.pos) /\ IsFloat(r.neg)) THEN "float-arithmetic"
    ELSE "ok"

\* transitivity on a triple: lt[i][j] = (x_i < x_j) as 0/1, defined only when all three are mutually ordered
TripleVerdict(lt) ==
    IF \E i, j, k \in 1..3 : lt[i][j] = 1 /\ lt[j][k] = 1 /\ lt[i][k] # 1 THEN "transitivity" ELSE "ok"

(* ---- model-level sanity (M): the limb arithmetic agrees with TLC's integers on a small range ---- *)
RECURSIVE ToLimbs(_)
ToLimbs(n) == IF n = 0 THEN <<>> ELSE <<n % Base>> \o ToLimbs(n \div Base)
OfInt(n) == IF n = 0 THEN MkInt(0, <<>>) ELSE IF n > 0 THEN MkInt(1, ToLimbs(n)) ELSE MkInt(-1, ToLimbs(0 - n))
LimbSanity(R) ==
    \A x, y \in R : /\ IntAdd(OfInt(x), OfInt(y)) = OfInt(x + y)
                    /\ IntSub(OfInt(x), OfInt(y)) = OfInt(x - y)
                    /\ IntMul(OfInt(x), OfInt(y)) = OfInt(x * y)
                    /\ (IntCmp(OfInt(x), OfInt(y)) < 0) = (x < y)
=============================================================================
