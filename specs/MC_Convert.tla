----------------------------- MODULE MC_Convert -----------------------------
(* Generation of value-kind trees for Convert.tla (C10, C08 result shapes).   *)
EXTENDS Convert
CONSTANTS Depth, Mode, Ns    \* Mode: "kinds" (C10) | "limits" (C08: wide trees around N)

S0 == {Scalar("1"), Scalar("a"), Scalar("null")}
ListLike == SeqKinds \cup SetKinds \cup IterKinds
MapLike == MapKinds \cup ViewKinds

\* containers over a pool of children: list-likes with 0..2 children, mapping-likes with 0..1 pair
ListNodes(pool, hashpool, maxn) ==
    {Node(k, ch) : k \in SeqKinds \cup IterKinds, ch \in UNION {[1..n -> pool] : n \in 0..maxn}}
    \cup {Node(k, ch) : k \in SetKinds, ch \in {q \in UNION {[1..n -> hashpool] : n \in 0..maxn} :
                                                  \A i, j \in 1..Len(q) : i # j => q[i] # q[j]}}
MapNodes(keypool, valpool) ==
    {Node(k, <<>>) : k \in MapLike} \cup {Node(k, <<<<kk, vv>>>>) : k \in MapLike, kk \in keypool, vv \in valpool}

T1 == ListNodes(S0, S0, 2) \cup MapNodes(S0, S0)
H1 == {t \in T1 : Hashable(t)}
T2 == ListNodes(T1 \cup {Scalar("1")}, H1 \cup {Scalar("1")}, 1)
        \cup MapNodes(H1, {Scalar("1")}) \cup MapNodes({Scalar("a")}, T1)
H2 == {t \in T2 : Hashable(t)}
T3 == ListNodes(T2, H2, 1) \cup MapNodes(H2, {Scalar("1")}) \cup MapNodes({Scalar("a")}, T2)

Trees == IF Depth = 1 THEN S0 \cup T1 ELSE IF Depth = 2 THEN S0 \cup T1 \cup T2 ELSE S0 \cup T1 \cup T2 \cup T3

\* C08: flat and nested containers whose widths sit around N
Wide(k, n) == Node(k, [i \in 1..n |-> Scalar("1")])
WideMap(k, n) == Node(k, [i \in 1..n |-> <<Scalar("k"), Scalar("1")>>])     \* keys made distinct by the harness
LimitTrees ==
    UNION {{Wide(k, n) : k \in SeqKinds \cup IterKinds \cup SetKinds} \cup {WideMap(k, n) : k \in MapLike}
           \cup {Node(o, <<Wide(k, n)>>) : o \in {"list", "generator"}, k \in {"list", "tuple", "generator", "set"}}
           \cup {Node("dict", <<<<Scalar("a"), Wide(k, n)>>>>) : k \in {"list", "mapobj", "frozenset"}}
           \cup {Node("list", <<Node("list", <<Wide("generator", n)>>)>>)}
           \* a collection used as a dict key is finalised (and limited) like any other
           \cup {Node(m, <<<<Wide(k, n), Scalar("1")>>>>) : m \in {"dict", "frozendict"}, k \in {"tuple", "frozenset"}}
           \cup {Node("list", <<Node("dict", <<<<Wide("tuple", n), Wide("list", 1)>>>>)>>)}
           : n \in 0..5}

VARIABLES tree, t2l, s2l, n, out, rt
vars == <<tree, t2l, s2l, n, out, rt>>
Init ==
    IF Mode = "kinds"
    THEN /\ tree \in Trees /\ t2l \in BOOLEAN /\ s2l \in BOOLEAN /\ n = 0 - 1
         /\ out = Finalize(tree, t2l, s2l)
         /\ rt = Finalize(ConvertIn(tree), t2l, s2l)      \* `$` on a host document: converted in, then finalised
    ELSE /\ tree \in LimitTrees /\ t2l \in BOOLEAN /\ s2l \in BOOLEAN /\ n \in Ns
         /\ out = IF TooLarge(tree, n) THEN No("too-large") ELSE Finalize(tree, t2l, s2l)
         /\ rt = out
Next == UNCHANGED vars
Spec == Init /\ [][Next]_vars

PlainOut == out.ok => Plain(out.t, t2l, s2l)
\* the only obstacles to a plain representation are unhashable converted keys / set elements
OnlyHashObstacles == ~out.ok => out.why \in {"too-large"} \cup {"dict-key:" \o k : k \in Kinds} \cup {"set-element:" \o k : k \in Kinds}
=============================================================================
