-------------------------------- MODULE Eval --------------------------------
(***************************************************************************)
(* Reference interpreter of yaql written from the language reference:      *)
(* core evaluation (C04), evaluation order as a tick log (C11), the        *)
(* collection / query library (C13) and, through prefix evaluation, the    *)
(* consumption bound of streaming pipelines (C14).                         *)
(*                                                                         *)
(* Values   <<"n">> null, <<"b", 0|1>>, <<"i", k>>, <<"s", text>>,         *)
(*          <<"l", items>> list, <<"d", pairs>> dict (insertion ordered),  *)
(*          <<"S", items>> set, <<"e", what>> an error,                    *)
(*          <<"ctx", env>> a context object, <<"lam", ast, env>> a closure,*)
(*          <<"ord", items, keys>> an ordering (orderBy ... thenBy)        *)
(* ASTs     <<"const", v>> <<"var", name>> <<"list", es>> <<"map", kvs>>   *)
(*          <<"idx", e, i>> <<"bin", op, l, r>> <<"un", op, e>>            *)
(*          <<"call", f, args, kws>> <<"mcall", recv, f, args, kws>>       *)
(*          <<"attr", recv, name>> <<"kwd", text>> <<"idx2", recv, key, default>> *)
(* Scopes   env = sequence of frames (innermost first), a frame is a       *)
(*          sequence of <<name, value>>; functions made by def() live in   *)
(*          frames under the name "fn:<name>".                             *)
(* Semantics are eager: a lazy library function is modelled by the list it *)
(* eventually yields; ticks are logged at the point of application (the    *)
(* order in which lazily evaluated lambdas interleave with later siblings  *)
(* is not fixed by the property and is compared modulo that, see           *)
(* Trace_Eval).                                                            *)
(***************************************************************************)
EXTENDS Integers, Sequences, FiniteSets, TLC

Null == <<"n">>
B(x) == <<"b", IF x THEN 1 ELSE 0>>
I(k) == <<"i", k>>
L(xs) == <<"l", xs>>
ErrV == <<"e", "error">>
Tag(v) == v[1]
IsErr(v) == v[1] = "e"
IsList(v) == v[1] = "l"
IsInt(v) == v[1] = "i"
IsNum(v) == v[1] = "i"
IsDict(v) == v[1] = "d"
IsSet(v) == v[1] = "S"
IsStr(v) == v[1] = "s"

Truthy(v) == CASE v[1] = "n" -> FALSE [] v[1] = "b" -> v[2] = 1 [] v[1] = "i" -> v[2] # 0 [] v[1] = "s" -> v[2] # ""
               [] v[1] \in {"l", "S", "d"} -> v[2] # <<>> [] OTHER -> TRUE

(* ---- equality as Python defines it (keys, distinct, in, =) -------------- *)
RECURSIVE VEq(_, _), SeqEq(_, _), SubBag(_, _), PairsSub(_, _)
NumLike(v) == v[1] \in {"b", "i"}
VEq(a, b) ==
    IF NumLike(a) /\ NumLike(b) THEN a[2] = b[2]
    ELSE IF a[1] # b[1] THEN FALSE
    ELSE CASE a[1] = "n" -> TRUE
           [] a[1] = "s" -> a[2] = b[2]
           [] a[1] = "l" -> SeqEq(a[2], b[2])
           [] a[1] = "S" -> Len(a[2]) = Len(b[2]) /\ SubBag(a[2], b[2])
           [] a[1] = "d" -> Len(a[2]) = Len(b[2]) /\ PairsSub(a[2], b[2])
           [] OTHER -> FALSE
SeqEq(x, y) == Len(x) = Len(y) /\ \A i \in 1..Len(x) : VEq(x[i], y[i])
SubBag(x, y) == \A i \in 1..Len(x) : \E j \in 1..Len(y) : VEq(x[i], y[j])
PairsSub(x, y) == \A i \in 1..Len(x) : \E j \in 1..Len(y) : VEq(x[i][1], y[j][1]) /\ VEq(x[i][2], y[j][2])

Member(v, xs) == \E i \in 1..Len(xs) : VEq(v, xs[i])
RECURSIVE Dedup(_, _)
Dedup(xs, acc) == IF xs = <<>> THEN acc ELSE Dedup(Tail(xs), IF Member(Head(xs), acc) THEN acc ELSE Append(acc, Head(xs)))
MkSet(xs) == <<"S", Dedup(xs, <<>>)>>

(* ---- ordering (numbers; null below everything) -------------------------- *)
Orderable(a, b) == (a[1] \in {"i", "n"}) /\ (b[1] \in {"i", "n"})
Lt(a, b) == IF a[1] = "n" THEN b[1] # "n" ELSE IF b[1] = "n" THEN FALSE ELSE a[2] < b[2]

(* ---- plain list helpers --------------------------------------------------- *)
Items(v) == IF v[1] \in {"l", "S"} THEN v[2] ELSE IF v[1] = "d" THEN [i \in 1..Len(v[2]) |-> v[2][i][1]] ELSE <<>>
IsColl(v) == v[1] \in {"l", "S"}
TakeN(xs, n) == SubSeq(xs, 1, IF n < Len(xs) THEN n ELSE Len(xs))
SkipN(xs, n) == SubSeq(xs, (IF n < Len(xs) THEN n ELSE Len(xs)) + 1, Len(xs))
RECURSIVE Rev(_)
Rev(xs) == IF xs = <<>> THEN <<>> ELSE Append(Rev(Tail(xs)), Head(xs))
RECURSIVE IndexOfFrom(_, _, _)
IndexOfFrom(xs, v, i) == IF i > Len(xs) THEN -1 ELSE IF VEq(xs[i], v) THEN i - 1 ELSE IndexOfFrom(xs, v, i + 1)
RECURSIVE LastIndexOfFrom(_, _, _)
LastIndexOfFrom(xs, v, i) == IF i = 0 THEN -1 ELSE IF VEq(xs[i], v) THEN i - 1 ELSE LastIndexOfFrom(xs, v, i - 1)
RECURSIVE FlattenL(_)
FlattenL(xs) == IF xs = <<>> THEN <<>>
                ELSE (IF IsColl(Head(xs)) THEN FlattenL(Head(xs)[2]) ELSE <<Head(xs)>>) \o FlattenL(Tail(xs))
ZipL(xs, ys) == [i \in 1..(IF Len(xs) < Len(ys) THEN Len(xs) ELSE Len(ys)) |-> L(<<xs[i], ys[i]>>)]
EnumL(xs, s) == [i \in 1..Len(xs) |-> L(<<I(s + i - 1), xs[i]>>)]
RECURSIVE RangeL(_, _, _)
RangeL(a, b, st) == IF (st > 0 /\ a >= b) \/ (st < 0 /\ a <= b) \/ st = 0 THEN <<>> ELSE <<I(a)>> \o RangeL(a + st, b, st)
\* insert on a sequence: Python list.insert for non-negative positions (past the end appends)
InsertL(xs, p, v) == LET q == IF p > Len(xs) THEN Len(xs) ELSE p IN SubSeq(xs, 1, q) \o <<v>> \o SubSeq(xs, q + 1, Len(xs))
InsertManyL(xs, p, vs) == LET q == IF p > Len(xs) THEN Len(xs) ELSE p IN SubSeq(xs, 1, q) \o vs \o SubSeq(xs, q + 1, Len(xs))
\* "[position, position+count) elements are removed / replaced": element i (0-based) is affected iff position <= i < position+count,
\* or i >= position when count < 0.  The replacement goes where the first affected element was; nothing is inserted when no
\* element is affected.  (Holds for negative positions as well: the interval is simply clipped by the collection.)
Affected(i, p, c) == IF c < 0 THEN i >= p ELSE (p <= i /\ i < p + c)
DeleteL(xs, p, c) == LET idx == SelectSeq([i \in 1..Len(xs) |-> i], LAMBDA i : ~Affected(i - 1, p, c)) IN [k \in 1..Len(idx) |-> xs[idx[k]]]
ReplaceManyL(xs, p, vs, c) ==
    LET aff == {i \in 1..Len(xs) : Affected(i - 1, p, c)}
        first == IF aff = {} THEN 0 ELSE CHOOSE i \in aff : \A j \in aff : i <= j
        RECURSIVE Build(_)
        Build(i) == IF i > Len(xs) THEN <<>>
                    ELSE (IF i = first THEN vs ELSE IF i \in aff THEN <<>> ELSE <<xs[i]>>) \o Build(i + 1)
    IN Build(1)
RECURSIVE SliceL(_, _)
SliceL(xs, n) == IF xs = <<>> THEN <<>> ELSE <<L(TakeN(xs, n))>> \o SliceL(SkipN(xs, n), n)
RECURSIVE SumL(_, _)
SumL(xs, acc) == IF xs = <<>> THEN acc ELSE SumL(Tail(xs), acc + Head(xs)[2])
AllInts(xs) == \A i \in 1..Len(xs) : xs[i][1] = "i"
AllOrd(xs) == \A i \in 1..Len(xs) : xs[i][1] \in {"i", "n"}
RECURSIVE MaxL(_, _), MinL(_, _)
MaxL(xs, m) == IF xs = <<>> THEN m ELSE MaxL(Tail(xs), IF Lt(m, Head(xs)) THEN Head(xs) ELSE m)
MinL(xs, m) == IF xs = <<>> THEN m ELSE MinL(Tail(xs), IF Lt(Head(xs), m) THEN Head(xs) ELSE m)
RECURSIVE RepeatL(_, _)
RepeatL(xs, n) == IF n <= 0 THEN <<>> ELSE xs \o RepeatL(xs, n - 1)

(* ---- dict helpers ----------------------------------------------------------- *)
RECURSIVE DGet(_, _)
DGet(ps, k) == IF ps = <<>> THEN <<"missing">> ELSE IF VEq(Head(ps)[1], k) THEN Head(ps)[2] ELSE DGet(Tail(ps), k)
DHas(ps, k) == \E i \in 1..Len(ps) : VEq(ps[i][1], k)
DSet(ps, k, v) == IF DHas(ps, k) THEN [i \in 1..Len(ps) |-> IF VEq(ps[i][1], k) THEN <<ps[i][1], v>> ELSE ps[i]]
                  ELSE Append(ps, <<k, v>>)
RECURSIVE DSetMany(_, _)
DSetMany(ps, qs) == IF qs = <<>> THEN ps ELSE DSetMany(DSet(ps, Head(qs)[1], Head(qs)[2]), Tail(qs))
DDel(ps, ks) == SelectSeq(ps, LAMBDA p : ~Member(p[1], ks))
MkDict(ps) == <<"d", DSetMany(<<>>, ps)>>
\* scalars hash; whether a sequence hashes depends on whether the producing function built a tuple or a Python list,
\* which this model does not track: operations that must hash a collection are not judged (UnH)
\* scalars, and dicts of scalars (a frozen dict hashes by its set of pairs: equal dicts hash alike whatever their key order)
Hashable(v) == \/ v[1] \in {"n", "b", "i", "s"}
               \/ (v[1] = "d" /\ \A i \in 1..Len(v[2]) : v[2][i][2][1] \in {"n", "b", "i", "s"})
UnH == <<"e", "unmodelled">>

(* ---- arithmetic -------------------------------------------------------------- *)
Arith(op, a, b) ==
    IF a[1] = "i" /\ b[1] = "i" THEN
        CASE op = "+" -> I(a[2] + b[2]) [] op = "-" -> I(a[2] - b[2]) [] op = "*" -> I(a[2] * b[2])
          [] op = "/" -> IF b[2] = 0 THEN ErrV ELSE I(a[2] \div b[2])
          [] op = "mod" -> IF b[2] = 0 THEN ErrV ELSE I(a[2] % b[2])
    ELSE IF op = "+" /\ IsColl(a) /\ IsColl(b) THEN L(a[2] \o b[2])
    ELSE IF op = "+" /\ IsDict(a) /\ IsDict(b) THEN <<"d", DSetMany(a[2], b[2])>>
    ELSE IF op = "+" /\ IsStr(a) /\ IsStr(b) THEN <<"s", a[2] \o b[2]>>
    ELSE IF IsStr(a) \/ IsStr(b) THEN <<"e", "unmodelled">>            \* string repetition etc.: Scalars.tla / Strings.tla
    ELSE IF op = "*" /\ IsList(a) /\ b[1] = "i" THEN L(RepeatL(a[2], b[2]))
    ELSE IF op = "*" /\ IsList(b) /\ a[1] = "i" THEN L(RepeatL(b[2], a[2]))
    ELSE ErrV

(* ---- scopes ------------------------------------------------------------------- *)
RECURSIVE FrameGet(_, _)
FrameGet(fr, n) == IF fr = <<>> THEN <<"missing">> ELSE IF Head(fr)[1] = n THEN Head(fr)[2] ELSE FrameGet(Tail(fr), n)
RECURSIVE Lookup(_, _)
Lookup(env, n) == IF env = <<>> THEN <<"missing">>
                  ELSE LET v == FrameGet(Head(env), n) IN IF v[1] # "missing" THEN v ELSE Lookup(Tail(env), n)
Norm(n) == IF n \in {"", "1"} THEN "1" ELSE n          \* $ = $1
ArgFrame(args) == [i \in 1..Len(args) |-> <<CASE i = 1 -> "1" [] i = 2 -> "2" [] i = 3 -> "3" [] OTHER -> "4", args[i]>>]

(* ---- results -------------------------------------------------------------------- *)
R(v, log) == [v |-> v, log |-> log]
LamNames == {"select", "where", "selectMany", "takeWhile", "skipWhile", "any", "all", "first", "orderBy", "orderByDescending",
             "thenBy", "thenByDescending", "groupBy", "distinct", "accumulate", "aggregate", "indexWhere", "lastIndexWhere",
             "sliceWhere", "splitWhere", "toDict", "join", "count", "mergeWith", "generate", "max", "min", "sum", "switch", "selectCase", "switchCase", "coalesce",
             "filter", "reduce", "assert"}

\* which argument positions (1-based, receiver excluded) of a method are lambdas, and how many values each takes
IsLamArg(f, i, nargs) ==
    CASE f \in {"select", "where", "selectMany", "takeWhile", "skipWhile", "all", "orderBy", "orderByDescending", "thenBy",
                "thenByDescending", "indexWhere", "lastIndexWhere", "sliceWhere", "splitWhere", "distinct"} -> i = 1
      [] f \in {"any", "count"} -> i = 1
      [] f \in {"groupBy", "toDict"} -> TRUE
      [] f \in {"accumulate", "aggregate", "reduce", "filter", "assert"} -> i = 1
      [] f = "join" -> i \in {2, 3}
      [] OTHER -> FALSE

\* lambda parameters may be passed by their keyword (the convention-translated parameter name): such a keyword argument stays
\* lazy exactly like the positional one, so it is moved to its position before anything is evaluated
LamParamNames(f) ==
    CASE f = "toDict" -> <<"keySelector", "valueSelector">>
      [] f = "groupBy" -> <<"keySelector", "valueSelector", "aggregator">>
      [] f = "distinct" -> <<"keySelector">>
      [] f \in {"where", "takeWhile", "skipWhile", "all", "indexWhere", "lastIndexWhere", "sliceWhere", "splitWhere", "any", "count"} -> <<"predicate">>
      [] f \in {"select", "selectMany", "orderBy", "orderByDescending", "thenBy", "thenByDescending"} -> <<"selector">>
      [] OTHER -> <<>>
RECURSIVE NormKw(_, _, _)
NormKw(f, pos, kws) ==
    LET names == LamParamNames(f)
        nxt == Len(pos) + 1
    IN IF nxt <= Len(names) /\ \E j \in 1..Len(kws) : kws[j][1] = names[nxt]
       THEN LET j == CHOOSE j \in 1..Len(kws) : kws[j][1] = names[nxt]
            IN NormKw(f, Append(pos, kws[j][2]), SubSeq(kws, 1, j - 1) \o SubSeq(kws, j + 1, Len(kws)))
       ELSE [pos |-> pos, kws |-> kws]

RECURSIVE Eval(_, _, _), EvalSeq(_, _, _, _), EvalKws(_, _, _, _), Apply(_, _, _), MapLam(_, _, _, _), CallFn(_, _, _, _, _),
          Method(_, _, _, _, _), SortBy(_, _, _), KeysOf(_, _, _, _), InsertSorted(_, _, _, _), GroupLoop(_, _, _, _, _, _), Finish(_, _),
          FoldLam(_, _, _, _), AccLam(_, _, _, _, _), JoinLoop(_, _, _, _, _, _), CmpKeys(_, _, _), ToDictLoop(_, _, _, _, _), SplitLoop(_, _, _, _, _, _, _)

\* evaluate expressions left to right, stop at the first error
EvalSeq(es, env, log, acc) ==
    IF es = <<>> THEN R(L(acc), log)
    ELSE LET r == Eval(Head(es), env, log)
         IN IF IsErr(r.v) THEN r ELSE EvalSeq(Tail(es), env, r.log, Append(acc, r.v))
EvalKws(kws, env, log, acc) ==
    IF kws = <<>> THEN R(<<"d", acc>>, log)
    ELSE LET r == Eval(Head(kws)[2], env, log)
         IN IF IsErr(r.v) THEN r ELSE EvalKws(Tail(kws), env, r.log, Append(acc, <<<<"s", Head(kws)[1]>>, r.v>>))

\* apply a closure to argument values: parameters are published as $1..$n ($ = $1) in a child of the DEFINING scope
Apply(clo, args, log) == Eval(clo[2], <<ArgFrame(args)>> \o clo[3], log)

\* xs mapped through a one-argument closure, left to right
MapLam(clo, xs, log, acc) ==
    IF xs = <<>> THEN R(L(acc), log)
    ELSE LET r == Apply(clo, <<Head(xs)>>, log)
         IN IF IsErr(r.v) THEN r ELSE MapLam(clo, Tail(xs), r.log, Append(acc, r.v))

FoldLam(clo, xs, acc, log) ==
    IF xs = <<>> THEN R(acc, log)
    ELSE LET r == Apply(clo, <<acc, Head(xs)>>, log) IN IF IsErr(r.v) THEN r ELSE FoldLam(clo, Tail(xs), r.v, r.log)
AccLam(clo, xs, acc, out, log) ==
    IF xs = <<>> THEN R(L(out), log)
    ELSE LET r == Apply(clo, <<acc, Head(xs)>>, log) IN IF IsErr(r.v) THEN r ELSE AccLam(clo, Tail(xs), r.v, Append(out, r.v), r.log)

\* ordering: keys = sequence of <<closure, ascending?>>; stable insertion sort on the key tuples
KeysOf(keys, x, log, acc) ==
    IF keys = <<>> THEN R(L(acc), log)
    ELSE LET r == Apply(Head(keys)[1], <<x>>, log) IN IF IsErr(r.v) THEN r ELSE KeysOf(Tail(keys), x, r.log, Append(acc, r.v))
CmpKeys(ka, kb, keys) ==      \* -1 / 0 / 1 ; 2 = not comparable
    IF ka = <<>> THEN 0
    ELSE IF ~Orderable(Head(ka), Head(kb)) THEN 2
    ELSE IF Lt(Head(ka), Head(kb)) THEN (IF Head(keys)[2] THEN -1 ELSE 1)
    ELSE IF Lt(Head(kb), Head(ka)) THEN (IF Head(keys)[2] THEN 1 ELSE -1)
    ELSE CmpKeys(Tail(ka), Tail(kb), Tail(keys))
\* insert <<item, keys>> after every element that is not greater (stability)
InsertSorted(sorted, it, keys, i) ==
    IF i > Len(sorted) THEN Append(sorted, it)
    ELSE IF CmpKeys(it[2], sorted[i][2], keys) = -1 THEN SubSeq(sorted, 1, i - 1) \o <<it>> \o SubSeq(sorted, i, Len(sorted))
    ELSE InsertSorted(sorted, it, keys, i + 1)
SortBy(xs, keys, log) ==
    IF Len(xs) <= 1 THEN R(L(xs), log)       \* nothing to compare: the key selectors are not applied
    ELSE
    LET RECURSIVE Dec(_, _, _)
        Dec(ys, lg, acc) == IF ys = <<>> THEN R(L(acc), lg)
                            ELSE LET k == KeysOf(keys, Head(ys), lg, <<>>)
                                 IN IF IsErr(k.v) THEN k ELSE Dec(Tail(ys), k.log, Append(acc, <<Head(ys), k.v[2]>>))
        d == Dec(xs, log, <<>>)
    IN IF IsErr(d.v) THEN d
       ELSE IF \E i, j \in 1..Len(d.v[2]) : CmpKeys(d.v[2][i][2], d.v[2][j][2], keys) = 2 THEN R(<<"e", "unmodelled">>, d.log)
       ELSE LET RECURSIVE Ins(_, _)
                Ins(ys, sorted) == IF ys = <<>> THEN sorted ELSE Ins(Tail(ys), InsertSorted(sorted, Head(ys), keys, 1))
                s == Ins(d.v[2], <<>>)
            IN R(L([i \in 1..Len(s) |-> s[i][1]]), d.log)

\* force a value that stands for a lazy object (an ordering) into the list it yields
Finish(v, log) == IF v[1] = "ord" THEN SortBy(v[2], v[3], log) ELSE R(v, log)

\* groupBy(keySelector, valueSelector, aggregator): value selector is applied before the key selector for each element
GroupLoop(xs, ksel, vsel, groups, log, dummy) ==
    IF xs = <<>> THEN R(<<"d", groups>>, log)
    ELSE LET x == Head(xs)
             rv == IF vsel[1] = "lam" THEN Apply(vsel, <<x>>, log) ELSE R(x, log)
         IN IF IsErr(rv.v) THEN rv
            ELSE LET rk == Apply(ksel, <<x>>, rv.log)
                 IN IF IsErr(rk.v) THEN rk
                    ELSE IF ~Hashable(rk.v) THEN R(UnH, rk.log)
                    ELSE LET old == DGet(groups, rk.v)
                             g2 == DSet(groups, rk.v, L(Append(IF old[1] = "missing" THEN <<>> ELSE old[2], rv.v)))
                         IN GroupLoop(Tail(xs), ksel, vsel, g2, rk.log, dummy)

JoinLoop(xs, ys, pred, sel, out, log) ==
    IF xs = <<>> THEN R(L(out), log)
    ELSE LET RECURSIVE Inner(_, _, _)
             Inner(zs, o, lg) ==
                IF zs = <<>> THEN R(L(o), lg)
                ELSE LET p == Apply(pred, <<Head(xs), Head(zs)>>, lg)
                     IN IF IsErr(p.v) THEN p
                        ELSE IF Truthy(p.v) THEN LET s == Apply(sel, <<Head(xs), Head(zs)>>, p.log)
                                                 IN IF IsErr(s.v) THEN s ELSE Inner(Tail(zs), Append(o, s.v), s.log)
                        ELSE Inner(Tail(zs), o, p.log)
             r == Inner(ys, out, log)
         IN IF IsErr(r.v) THEN r ELSE JoinLoop(Tail(xs), ys, pred, sel, r.v[2], r.log)

ToDictLoop(xs, ksel, vsel, acc, log) ==
    IF xs = <<>> THEN R(<<"d", acc>>, log)
    ELSE LET rk == Apply(ksel, <<Head(xs)>>, log)
         IN IF IsErr(rk.v) THEN rk
            ELSE LET rv == IF vsel[1] = "lam" THEN Apply(vsel, <<Head(xs)>>, rk.log) ELSE R(Head(xs), rk.log)
                 IN IF IsErr(rv.v) THEN rv ELSE IF ~Hashable(rk.v) THEN R(UnH, rv.log)
                    ELSE ToDictLoop(Tail(xs), ksel, vsel, DSet(acc, rk.v, rv.v), rv.log)

\* sliceWhere (mode 1: a new slice starts whenever the predicate's value changes ... see Method) / splitWhere (mode 2)
SplitLoop(xs, pred, cur, out, log, mode, last) ==
    IF xs = <<>> THEN R(L(IF cur # <<>> THEN Append(out, L(cur)) ELSE out), log)
    ELSE LET p == Apply(pred, <<Head(xs)>>, log)
         IN IF IsErr(p.v) THEN p
            ELSE IF mode = 2 THEN
                    (IF Truthy(p.v) THEN SplitLoop(Tail(xs), pred, <<>>, Append(out, L(cur)), p.log, mode, last)
                     ELSE SplitLoop(Tail(xs), pred, Append(cur, Head(xs)), out, p.log, mode, last))
            ELSE LET t == p.v         \* the predicate's value itself is compared (Python equality), not its truth
                 IN IF last # <<"noprev">> /\ ~VEq(t, last) /\ cur # <<>>
                    THEN SplitLoop(Tail(xs), pred, <<Head(xs)>>, Append(out, L(cur)), p.log, mode, t)
                    ELSE SplitLoop(Tail(xs), pred, Append(cur, Head(xs)), out, p.log, mode, t)

\* dict.mergeWith(other, maxLevels): deep merge; nested dicts merge recursively, lists merge to distinct(l1 + l2), anything else: the
\* second value wins (also when it is null); a dict/list in the second against another kind in the first is an error
RECURSIVE MergeD(_, _, _)
MergeD(d1, d2, lv) ==
    LET RECURSIVE Go(_, _)
        Go(ps, acc) ==
            IF ps = <<>> THEN acc
            ELSE IF IsErr(acc) THEN acc
            ELSE LET k == Head(ps)[1]
                     v1 == Head(ps)[2]
                     v2 == DGet(d2, k)
                     nv == IF v2[1] = "missing" THEN v1
                           ELSE IF lv # 1 /\ v2[1] = "d" THEN (IF v1[1] # "d" THEN ErrV ELSE MergeD(v1[2], v2[2], IF lv = 0 THEN 0 ELSE lv - 1))
                           ELSE IF lv # 1 /\ v2[1] = "l" THEN
                                (IF v1[1] # "l" THEN ErrV
                                 ELSE IF \E i \in 1..Len(v1[2] \o v2[2]) : ~Hashable((v1[2] \o v2[2])[i]) THEN UnH
                                 ELSE L(Dedup(v1[2] \o v2[2], <<>>)))
                           ELSE v2
                 IN IF IsErr(nv) THEN nv ELSE Go(Tail(ps), <<"d", Append(acc[2], <<k, nv>>)>>)
        r == Go(d1, <<"d", <<>>>>)
    IN IF IsErr(r) THEN r
       ELSE <<"d", r[2] \o SelectSeq(d2, LAMBDA p : ~DHas(d1, p[1]))>>

\* sum = left fold with the + operator (a single element is returned as it is)
RECURSIVE SumFold(_, _)
SumFold(xs, acc) == IF xs = <<>> \/ IsErr(acc) THEN acc ELSE SumFold(Tail(xs), Arith("+", acc, Head(xs)))

IntArg(args, i, dflt) == IF Len(args) >= i THEN args[i] ELSE I(dflt)
\* a parameter given positionally (position i) or by keyword, else its default
KwArg(args, kw, i, name, dflt) ==
    IF Len(args) >= i THEN args[i]
    ELSE IF \E j \in 1..Len(kw) : kw[j][1][2] = name THEN kw[CHOOSE j \in 1..Len(kw) : kw[j][1][2] = name][2]
    ELSE I(dflt)

(***************************************************************************)
(* Methods on collections: recv is the evaluated receiver, args the        *)
(* evaluated eager arguments / closures.                                   *)
(***************************************************************************)
Method(f, recv, args, kw, log) ==
    LET xs == Items(recv)
        n == Len(args)
        a1 == IF n >= 1 THEN args[1] ELSE Null
        a2 == IF n >= 2 THEN args[2] ELSE Null
        a3 == IF n >= 3 THEN args[3] ELSE Null
        lam1 == n >= 1 /\ a1[1] = "lam"
        coll == IsColl(recv) \/ recv[1] = "ord"
        isI(v) == v[1] = "i"
        E == R(ErrV, log)
    IN
    IF IsSet(recv) /\ ~(f = "toList" /\ Len(recv[2]) <= 1) /\ f \notin {"len", "count", "contains", "toSet", "union", "intersect", "difference", "symmetricDifference",
                                                 "add", "remove", "any", "all", "sum", "max", "min"}
    THEN R(<<"e", "unmodelled">>, log)
    ELSE IF recv[1] = "ord" /\ f = "len" THEN E
    ELSE IF recv[1] = "ord" /\ f \notin {"thenBy", "thenByDescending"}
    THEN LET fr == Finish(recv, log) IN IF IsErr(fr.v) THEN fr ELSE Method(f, fr.v, args, kw, fr.log)
    ELSE CASE
      f = "select" /\ coll /\ lam1 /\ n = 1 -> MapLam(a1, xs, log, <<>>)
   [] f = "where" /\ coll /\ lam1 /\ n = 1 ->
        LET m == MapLam(a1, xs, log, <<>>)
            kept == SelectSeq([i \in 1..Len(xs) |-> <<xs[i], m.v[2][i]>>], LAMBDA p : Truthy(p[2]))
        IN IF IsErr(m.v) THEN m ELSE R(L([i \in 1..Len(kept) |-> kept[i][1]]), m.log)
   [] f = "selectMany" /\ coll /\ lam1 /\ n = 1 ->
        LET m == MapLam(a1, xs, log, <<>>)
            RECURSIVE Cat(_)
            Cat(q) == IF q = <<>> THEN <<>> ELSE (IF IsColl(Head(q)) THEN Head(q)[2] ELSE <<Head(q)>>) \o Cat(Tail(q))
        IN IF IsErr(m.v) THEN m ELSE R(L(Cat(m.v[2])), m.log)
   [] f = "takeWhile" /\ coll /\ lam1 /\ n = 1 ->
        LET RECURSIVE TW(_, _, _)
            TW(ys, lg, acc) == IF ys = <<>> THEN R(L(acc), lg)
                               ELSE LET p == Apply(a1, <<Head(ys)>>, lg)
                                    IN IF IsErr(p.v) THEN p ELSE IF Truthy(p.v) THEN TW(Tail(ys), p.log, Append(acc, Head(ys))) ELSE R(L(acc), p.log)
        IN TW(xs, log, <<>>)
   [] f = "skipWhile" /\ coll /\ lam1 /\ n = 1 ->
        LET RECURSIVE SW(_, _)
            SW(ys, lg) == IF ys = <<>> THEN R(L(<<>>), lg)
                          ELSE LET p == Apply(a1, <<Head(ys)>>, lg)
                               IN IF IsErr(p.v) THEN p ELSE IF Truthy(p.v) THEN SW(Tail(ys), p.log) ELSE R(L(ys), p.log)
        IN SW(xs, log)
   [] f = "any" /\ coll /\ n = 0 -> R(B(xs # <<>>), log)
   [] f = "any" /\ coll /\ lam1 /\ n = 1 ->
        LET RECURSIVE AN(_, _)
            AN(ys, lg) == IF ys = <<>> THEN R(B(FALSE), lg)
                          ELSE LET p == Apply(a1, <<Head(ys)>>, lg) IN IF IsErr(p.v) THEN p ELSE IF Truthy(p.v) THEN R(B(TRUE), p.log) ELSE AN(Tail(ys), p.log)
        IN AN(xs, log)
   [] f = "all" /\ coll /\ n = 0 -> R(B(\A i \in 1..Len(xs) : Truthy(xs[i])), log)
   [] f = "all" /\ coll /\ lam1 /\ n = 1 ->
        LET RECURSIVE AL(_, _)
            AL(ys, lg) == IF ys = <<>> THEN R(B(TRUE), lg)
                          ELSE LET p == Apply(a1, <<Head(ys)>>, lg) IN IF IsErr(p.v) THEN p ELSE IF ~Truthy(p.v) THEN R(B(FALSE), p.log) ELSE AL(Tail(ys), p.log)
        IN AL(xs, log)
   [] f \in {"take", "limit"} /\ coll /\ n = 1 /\ isI(a1) -> IF a1[2] < 0 THEN E ELSE R(L(TakeN(xs, a1[2])), log)
   [] f = "skip" /\ coll /\ n = 1 /\ isI(a1) -> IF a1[2] < 0 THEN E ELSE R(L(SkipN(xs, a1[2])), log)
   [] f = "first" /\ coll /\ n = 0 -> IF xs = <<>> THEN E ELSE R(xs[1], log)
   [] f = "first" /\ coll /\ n = 1 /\ ~lam1 -> R(IF xs = <<>> THEN a1 ELSE xs[1], log)
   [] f = "last" /\ coll /\ n = 0 -> IF xs = <<>> THEN E ELSE R(xs[Len(xs)], log)
   [] f = "last" /\ coll /\ n = 1 /\ ~lam1 -> R(IF xs = <<>> THEN a1 ELSE xs[Len(xs)], log)
   [] f = "single" /\ coll /\ n = 0 -> IF Len(xs) # 1 THEN E ELSE R(xs[1], log)
   [] f \in {"len", "count"} /\ (coll \/ IsDict(recv)) /\ n = 0 -> R(I(Len(recv[2])), log)
   [] f = "len" /\ IsStr(recv) /\ n = 0 -> R(<<"e", "unmodelled">>, log)        \* strings: C19's module
   [] f = "sum" /\ coll /\ n = 0 -> IF xs = <<>> THEN E ELSE R(SumFold(Tail(xs), xs[1]), log)
   [] f = "sum" /\ coll /\ n = 1 -> R(SumFold(xs, a1), log)
   [] f = "max" /\ coll /\ n = 0 -> IF xs = <<>> THEN E ELSE IF ~AllOrd(xs) THEN R(<<"e", "unmodelled">>, log) ELSE R(MaxL(xs, xs[1]), log)
   [] f = "min" /\ coll /\ n = 0 -> IF xs = <<>> THEN E ELSE IF ~AllOrd(xs) THEN R(<<"e", "unmodelled">>, log) ELSE R(MinL(xs, xs[1]), log)
   [] f = "max" /\ coll /\ n = 1 /\ isI(a1) -> IF ~AllOrd(xs) THEN R(<<"e", "unmodelled">>, log) ELSE R(MaxL(xs, a1), log)
   [] f = "min" /\ coll /\ n = 1 /\ isI(a1) -> IF ~AllOrd(xs) THEN R(<<"e", "unmodelled">>, log) ELSE R(MinL(xs, a1), log)
   [] f = "reverse" /\ coll /\ n = 0 -> R(L(Rev(xs)), log)
   [] f = "distinct" /\ coll /\ n = 0 -> IF \E i \in 1..Len(xs) : ~Hashable(xs[i]) THEN R(UnH, log) ELSE R(L(Dedup(xs, <<>>)), log)
   [] f = "distinct" /\ coll /\ lam1 /\ n = 1 ->
        LET m == MapLam(a1, xs, log, <<>>)
            RECURSIVE DK(_, _, _)
            DK(i, seen, acc) == IF i > Len(xs) THEN acc
                                ELSE IF Member(m.v[2][i], seen) THEN DK(i + 1, seen, acc) ELSE DK(i + 1, Append(seen, m.v[2][i]), Append(acc, xs[i]))
        IN IF IsErr(m.v) THEN m ELSE IF \E i \in 1..Len(xs) : ~Hashable(m.v[2][i]) THEN R(UnH, m.log) ELSE R(L(DK(1, <<>>, <<>>)), m.log)
   [] f = "toList" /\ coll /\ n = 0 -> R(L(xs), log)
   [] f = "toSet" /\ coll /\ n = 0 -> IF \E i \in 1..Len(xs) : ~Hashable(xs[i]) THEN R(UnH, log) ELSE R(MkSet(xs), log)
   [] f = "memorize" /\ coll /\ n = 0 -> R(recv, log)          \* buffers an iterator; anything else is returned as it is
   [] f = "flatten" /\ coll /\ n = 0 -> R(L(FlattenL(xs)), log)
   [] f = "append" /\ coll -> R(L(xs \o args), log)
   [] f = "concat" /\ coll /\ \A i \in 1..n : IsColl(args[i]) ->
        LET RECURSIVE CC(_) CC(q) == IF q = <<>> THEN <<>> ELSE Head(q)[2] \o CC(Tail(q)) IN R(L(xs \o CC(args)), log)
   [] f = "indexOf" /\ coll /\ n = 1 -> R(I(IndexOfFrom(xs, a1, 1)), log)
   [] f = "lastIndexOf" /\ coll /\ n = 1 -> R(I(LastIndexOfFrom(xs, a1, Len(xs))), log)
   [] f = "indexWhere" /\ coll /\ lam1 /\ n = 1 ->
        LET RECURSIVE IW(_, _)
            IW(i, lg) == IF i > Len(xs) THEN R(I(-1), lg)
                         ELSE LET p == Apply(a1, <<xs[i]>>, lg) IN IF IsErr(p.v) THEN p ELSE IF Truthy(p.v) THEN R(I(i - 1), p.log) ELSE IW(i + 1, p.log)
        IN IW(1, log)
   [] f = "lastIndexWhere" /\ coll /\ lam1 /\ n = 1 ->
        LET m == MapLam(a1, xs, log, <<>>)
            hits == {i \in 1..Len(xs) : Truthy(m.v[2][i])}
        IN IF IsErr(m.v) THEN m ELSE R(I(IF hits = {} THEN -1 ELSE (CHOOSE i \in hits : \A j \in hits : i >= j) - 1), m.log)
   [] f = "contains" /\ coll /\ n = 1 -> R(B(Member(a1, xs)), log)
   [] f = "zip" /\ coll /\ n = 1 /\ IsColl(a1) -> R(L(ZipL(xs, a1[2])), log)
   [] f = "enumerate" /\ coll /\ n = 0 -> R(L(EnumL(xs, 0)), log)
   [] f = "enumerate" /\ coll /\ n = 1 /\ isI(a1) -> R(L(EnumL(xs, a1[2])), log)
   [] f = "slice" /\ coll /\ n = 1 /\ isI(a1) -> IF a1[2] <= 0 THEN R(<<"e", "out-of-domain">>, log) ELSE R(L(SliceL(xs, a1[2])), log)
   [] f = "splitAt" /\ coll /\ n = 1 /\ isI(a1) -> IF a1[2] < 0 THEN R(<<"e", "out-of-domain">>, log) ELSE R(L(<<L(TakeN(xs, a1[2])), L(SkipN(xs, a1[2]))>>), log)
   [] f = "sliceWhere" /\ coll /\ lam1 /\ n = 1 -> SplitLoop(xs, a1, <<>>, <<>>, log, 1, <<"noprev">>)
   [] f = "splitWhere" /\ coll /\ lam1 /\ n = 1 -> SplitLoop(xs, a1, <<>>, <<>>, log, 2, <<"noprev">>)
   [] f = "insert" /\ coll /\ n = 2 /\ isI(a1) -> IF a1[2] < 0 THEN R(<<"e", "out-of-domain">>, log) ELSE R(L(InsertL(xs, a1[2], a2)), log)
   [] f = "insertMany" /\ coll /\ n = 2 /\ isI(a1) /\ IsColl(a2) ->
        IF a1[2] < 0 THEN R(<<"e", "out-of-domain">>, log) ELSE R(L(InsertManyL(xs, a1[2], a2[2])), log)
   [] f = "delete" /\ coll /\ n \in {1, 2} /\ isI(a1) /\ isI(KwArg(args, kw, 2, "count", 1)) ->
        R(L(DeleteL(xs, a1[2], KwArg(args, kw, 2, "count", 1)[2])), log)
   [] f = "replace" /\ coll /\ n \in {2, 3} /\ isI(a1) /\ isI(KwArg(args, kw, 3, "count", 1)) ->
        R(L(ReplaceManyL(xs, a1[2], <<a2>>, KwArg(args, kw, 3, "count", 1)[2])), log)
   [] f = "replaceMany" /\ coll /\ n \in {2, 3} /\ isI(a1) /\ IsColl(a2) /\ isI(KwArg(args, kw, 3, "count", 1)) ->
        R(L(ReplaceManyL(xs, a1[2], a2[2], KwArg(args, kw, 3, "count", 1)[2])), log)
   [] f = "accumulate" /\ coll /\ lam1 /\ n = 1 -> IF xs = <<>> THEN E ELSE AccLam(a1, Tail(xs), xs[1], <<xs[1]>>, log)
   [] f = "accumulate" /\ coll /\ lam1 /\ n = 2 -> AccLam(a1, xs, a2, <<a2>>, log)
   [] f = "aggregate" /\ coll /\ lam1 /\ n = 1 -> IF xs = <<>> THEN E ELSE FoldLam(a1, Tail(xs), xs[1], log)
   [] f = "aggregate" /\ coll /\ lam1 /\ n = 2 -> FoldLam(a1, xs, a2, log)
   [] f \in {"orderBy", "orderByDescending"} /\ coll /\ lam1 /\ n = 1 -> R(<<"ord", xs, <<<<a1, f = "orderBy">>>>>>, log)
   [] f \in {"thenBy", "thenByDescending"} /\ recv[1] = "ord" /\ lam1 /\ n = 1 -> R(<<"ord", recv[2], Append(recv[3], <<a1, f = "thenBy">>)>>, log)
   [] f = "groupBy" /\ coll /\ lam1 /\ n \in {1, 2, 3} ->
        LET g == GroupLoop(xs, a1, IF n >= 2 THEN a2 ELSE Null, <<>>, log, 0)
        IN IF IsErr(g.v) THEN g
           ELSE LET pairs == [i \in 1..Len(g.v[2]) |-> L(<<g.v[2][i][1], g.v[2][i][2]>>)]
                    vals == [i \in 1..Len(g.v[2]) |-> g.v[2][i][2]]
                IN IF n = 3 /\ a3[1] = "lam"
                   THEN LET m == MapLam(a3, vals, g.log, <<>>)
                        IN IF IsErr(m.v) THEN m ELSE R(L([i \in 1..Len(pairs) |-> L(<<g.v[2][i][1], m.v[2][i]>>)]), m.log)
                   ELSE R(L(pairs), g.log)
   [] f = "toDict" /\ coll /\ lam1 /\ n \in {1, 2} -> ToDictLoop(xs, a1, IF n = 2 THEN a2 ELSE Null, <<>>, log)
   [] f = "join" /\ coll /\ n = 3 /\ IsColl(a1) /\ a2[1] = "lam" /\ a3[1] = "lam" -> JoinLoop(xs, a1[2], a2, a3, <<>>, log)
   [] f = "cycle" /\ coll /\ n = 0 -> R(<<"e", "endless">>, log)
   [] f = "defaultIfEmpty" /\ coll /\ n = 1 /\ IsColl(a1) -> R(IF xs = <<>> THEN L(a1[2]) ELSE L(xs), log)
   [] f = "filter" /\ coll /\ lam1 /\ n = 1 -> Method("where", recv, args, kw, log)
   [] f = "reduce" /\ coll /\ lam1 -> Method("aggregate", recv, args, kw, log)
   [] f = "zipLongest" /\ coll /\ n = 1 /\ IsColl(a1) ->
        LET d == IF \E j \in 1..Len(kw) : kw[j][1][2] = "default" THEN kw[CHOOSE j \in 1..Len(kw) : kw[j][1][2] = "default"][2] ELSE Null
            ys == a1[2]
            m == IF Len(xs) > Len(ys) THEN Len(xs) ELSE Len(ys)
        IN R(L([i \in 1..m |-> L(<<IF i <= Len(xs) THEN xs[i] ELSE d, IF i <= Len(ys) THEN ys[i] ELSE d>>)]), log)
   [] f = "repeat" /\ n = 1 /\ isI(a1) -> R(L([i \in 1..(IF a1[2] < 0 THEN 0 ELSE a1[2]) |-> recv]), log)
   [] f = "assert" /\ lam1 /\ n \in {1, 2} ->
        \* recv.assert(condition [, message]): the receiver itself when the condition holds for it, an error otherwise
        LET c == Apply(a1, <<recv>>, log) IN IF IsErr(c.v) THEN c ELSE IF Truthy(c.v) THEN R(recv, c.log) ELSE R(ErrV, c.log)
   \* ---- dicts
   [] f = "get" /\ IsDict(recv) /\ n \in {1, 2} -> LET v == DGet(recv[2], a1) IN R(IF v[1] = "missing" THEN a2 ELSE v, log)
   [] f = "set" /\ IsDict(recv) /\ n = 2 -> IF ~Hashable(a1) THEN R(UnH, log) ELSE R(<<"d", DSet(recv[2], a1, a2)>>, log)
   [] f = "set" /\ IsDict(recv) /\ n = 1 /\ IsDict(a1) -> R(<<"d", DSetMany(recv[2], a1[2])>>, log)
   [] f = "set" /\ IsDict(recv) /\ n = 0 -> R(<<"d", DSetMany(recv[2], kw)>>, log)
   [] f = "mergeWith" /\ IsDict(recv) /\ n = 1 /\ IsDict(a1) /\ (kw = <<>> \/ (Len(kw) = 1 /\ kw[1][1][2] = "maxLevels" /\ kw[1][2][1] = "i")) ->
        R(MergeD(recv[2], a1[2], IF kw = <<>> THEN 0 ELSE kw[1][2][2]), log)
   [] f = "keys" /\ IsDict(recv) /\ n = 0 -> R(L([i \in 1..Len(recv[2]) |-> recv[2][i][1]]), log)
   [] f = "values" /\ IsDict(recv) /\ n = 0 -> R(L([i \in 1..Len(recv[2]) |-> recv[2][i][2]]), log)
   [] f = "items" /\ IsDict(recv) /\ n = 0 -> R(L([i \in 1..Len(recv[2]) |-> L(<<recv[2][i][1], recv[2][i][2]>>)]), log)
   [] f = "containsKey" /\ IsDict(recv) /\ n = 1 -> R(B(DHas(recv[2], a1)), log)
   [] f = "containsValue" /\ IsDict(recv) /\ n = 1 -> R(B(\E i \in 1..Len(recv[2]) : VEq(recv[2][i][2], a1)), log)
   [] f = "delete" /\ IsDict(recv) -> R(<<"d", DDel(recv[2], args)>>, log)
   [] f = "deleteAll" /\ IsDict(recv) /\ n = 1 /\ IsColl(a1) -> R(<<"d", DDel(recv[2], a1[2])>>, log)
   \* ---- sets
   [] f = "union" /\ IsSet(recv) /\ n = 1 /\ IsSet(a1) -> R(MkSet(xs \o a1[2]), log)
   [] f = "intersect" /\ IsSet(recv) /\ n = 1 /\ IsSet(a1) -> R(MkSet(SelectSeq(xs, LAMBDA x : Member(x, a1[2]))), log)
   [] f = "difference" /\ IsSet(recv) /\ n = 1 /\ IsSet(a1) -> R(MkSet(SelectSeq(xs, LAMBDA x : ~Member(x, a1[2]))), log)
   [] f = "symmetricDifference" /\ IsSet(recv) /\ n = 1 /\ IsSet(a1) ->
        R(MkSet(SelectSeq(xs, LAMBDA x : ~Member(x, a1[2])) \o SelectSeq(a1[2], LAMBDA x : ~Member(x, xs))), log)
   [] f = "add" /\ IsSet(recv) -> IF \E i \in 1..n : ~Hashable(args[i]) THEN R(UnH, log) ELSE R(MkSet(xs \o args), log)
   [] f = "remove" /\ IsSet(recv) -> R(MkSet(SelectSeq(xs, LAMBDA x : ~Member(x, args))), log)
   [] OTHER -> R(<<"e", "unmodelled">>, log)

(***************************************************************************)
(* Functions called without a receiver.                                    *)
(***************************************************************************)
CallFn(f, args, kw, env, log) ==
    LET n == Len(args)
        a1 == IF n >= 1 THEN args[1] ELSE Null
        a2 == IF n >= 2 THEN args[2] ELSE Null
        a3 == IF n >= 3 THEN args[3] ELSE Null
        isI(v) == v[1] = "i"
        user == Lookup(env, "fn:" \o f)
    \* a def-ined function: positional arguments are published as $1.., named ones under their names, in a scope of the
    \* call's own on top of the defining scope
    IN IF user[1] = "lam" THEN Eval(user[2], <<ArgFrame(args) \o [i \in 1..Len(kw) |-> <<kw[i][1][2], kw[i][2]>>]>> \o user[3], log)
       ELSE CASE
          f = "list" -> R(L(args), log)
       [] f = "dict" /\ n = 0 -> R(MkDict(kw), log)
       [] f = "dict" /\ n = 1 /\ IsColl(a1) ->
            IF \E i \in 1..Len(a1[2]) : ~(IsColl(a1[2][i]) /\ Len(a1[2][i][2]) >= 2) THEN R(ErrV, log)
            ELSE IF \E i \in 1..Len(a1[2]) : ~Hashable(a1[2][i][2][1]) THEN R(UnH, log)
            ELSE R(MkDict([i \in 1..Len(a1[2]) |-> <<a1[2][i][2][1], a1[2][i][2][2]>>]), log)
       [] f = "set" -> IF \E i \in 1..n : ~Hashable(args[i]) THEN R(UnH, log) ELSE R(MkSet(args), log)
       [] f = "range" /\ n = 1 /\ isI(a1) -> R(L(RangeL(0, a1[2], 1)), log)
       [] f = "range" /\ n = 2 /\ isI(a1) /\ isI(a2) -> R(L(RangeL(a1[2], a2[2], 1)), log)
       [] f = "range" /\ n = 3 /\ isI(a1) /\ isI(a2) /\ isI(a3) -> IF a3[2] = 0 THEN R(ErrV, log) ELSE R(L(RangeL(a1[2], a2[2], a3[2])), log)
       [] f = "isIterable" /\ n = 1 -> R(B(a1[1] \in {"l", "S", "ord"}), log)
       [] f = "isBoolean" /\ n = 1 -> R(B(a1[1] = "b"), log)
       [] f = "isList" /\ n = 1 -> R(B(IsList(a1)), log)
       [] f = "isDict" /\ n = 1 -> R(B(IsDict(a1)), log)
       [] f = "isSet" /\ n = 1 -> R(B(IsSet(a1)), log)
       \* extension methods: callable as functions with the receiver first
       [] f \in {"len", "distinct", "any", "all", "enumerate", "append", "concat"} /\ n >= 1 /\ (IsColl(a1) \/ IsDict(a1)) -> Method(f, a1, Tail(args), kw, log)
       [] f \in {"toList", "toSet", "flatten", "sum", "reverse", "first", "last", "count", "select", "where", "take", "skip"} -> R(ErrV, log)   \* methods only
       [] f = "max" /\ n = 2 /\ isI(a1) /\ isI(a2) -> R(IF a1[2] >= a2[2] THEN a1 ELSE a2, log)
       [] f = "min" /\ n = 2 /\ isI(a1) /\ isI(a2) -> R(IF a1[2] <= a2[2] THEN a1 ELSE a2, log)
       [] f = "abs" /\ n = 1 /\ isI(a1) -> R(I(IF a1[2] < 0 THEN 0 - a1[2] ELSE a1[2]), log)
       [] f = "int" /\ n = 1 /\ a1[1] \in {"i", "b"} -> R(I(a1[2]), log)
       [] f = "int" /\ n = 1 /\ a1[1] = "n" -> R(I(0), log)
       [] f = "bool" /\ n = 1 -> R(B(Truthy(a1)), log)
       [] f = "isEmpty" /\ n = 1 /\ a1[1] = "n" -> R(B(TRUE), log)
       [] OTHER -> R(<<"e", "unmodelled">>, log)

Compare(op, a, b) ==
    IF op = "=" THEN B(VEq(a, b)) ELSE IF op = "!=" THEN B(~VEq(a, b))
    ELSE IF a[1] = "S" /\ b[1] = "S" THEN
         \* sets are ordered by inclusion (a partial order: two incomparable sets are neither < nor > nor <= nor >=)
         LET ab == SubBag(a[2], b[2])
             ba == SubBag(b[2], a[2])
         IN CASE op = "<" -> B(ab /\ ~ba) [] op = "<=" -> B(ab) [] op = ">" -> B(ba /\ ~ab) [] op = ">=" -> B(ba)
    ELSE IF ~((a[1] = "i" /\ b[1] = "i") \/ a[1] = "n" \/ b[1] = "n") THEN ErrV
    ELSE CASE op = "<" -> B(Lt(a, b)) [] op = ">" -> B(Lt(b, a)) [] op = "<=" -> B(~Lt(b, a)) [] op = ">=" -> B(~Lt(a, b))

\* member access  recv.name : dict key, mapped over the elements of a collection
RECURSIVE Member2(_, _)
Member2(recv, name) ==
    IF IsDict(recv) THEN LET v == DGet(recv[2], <<"s", name>>) IN IF v[1] = "missing" THEN ErrV ELSE v
    ELSE IF IsColl(recv) THEN
        LET ms == [i \in 1..Len(recv[2]) |-> Member2(recv[2][i], name)]
        IN IF \E i \in 1..Len(ms) : IsErr(ms[i]) THEN ErrV ELSE L(ms)
    ELSE ErrV

Eval(e, env, log) ==
    CASE e[1] = "const" -> R(e[2], log)
      [] e[1] = "kwd" -> R(<<"s", e[2]>>, log)
      [] e[1] = "var" -> LET v == Lookup(env, Norm(e[2])) IN R(IF v[1] = "missing" THEN Null ELSE v, log)
      [] e[1] = "list" -> EvalSeq(e[2], env, log, <<>>)
      [] e[1] = "map" ->
            \* {k1 => v1, k2 => v2}: k1, v1, k2, v2 in that order
            LET RECURSIVE Flat(_)
                Flat(ps) == IF ps = <<>> THEN <<>> ELSE <<Head(ps)[1], Head(ps)[2]>> \o Flat(Tail(ps))
                kv == EvalSeq(Flat(e[2]), env, log, <<>>)
            IN IF IsErr(kv.v) THEN kv
               ELSE IF \E i \in 1..Len(e[2]) : ~Hashable(kv.v[2][2 * i - 1]) THEN R(UnH, kv.log)
               ELSE R(MkDict([i \in 1..Len(e[2]) |-> <<kv.v[2][2 * i - 1], kv.v[2][2 * i]>>]), kv.log)
      [] e[1] = "idx" ->
            LET r == Eval(e[2], env, log)
            IN IF IsErr(r.v) THEN r
               ELSE IF r.v[1] = "ord" THEN R(ErrV, r.log)          \* an ordering object cannot be indexed
               ELSE LET rf == Finish(r.v, r.log)
                        i == Eval(e[3], env, rf.log)
                    IN IF IsErr(rf.v) THEN rf ELSE IF IsErr(i.v) THEN i
                       ELSE IF IsList(rf.v) /\ i.v[1] = "i" THEN
                            LET k == IF i.v[2] < 0 THEN Len(rf.v[2]) + i.v[2] + 1 ELSE i.v[2] + 1
                            IN IF k >= 1 /\ k <= Len(rf.v[2]) THEN R(rf.v[2][k], i.log) ELSE R(ErrV, i.log)
                       ELSE IF IsDict(rf.v) THEN LET v == DGet(rf.v[2], i.v) IN R(IF v[1] = "missing" THEN ErrV ELSE v, i.log)
                       ELSE R(ErrV, i.log)
      \* mapping[key, default]: the value stored under the key (a stored null included), the default only when the key is absent
      [] e[1] = "idx2" ->
            LET r == Eval(e[2], env, log)
            IN IF IsErr(r.v) THEN r
               ELSE LET rf == Finish(r.v, r.log)
                        i == Eval(e[3], env, rf.log)
                        d == Eval(e[4], env, i.log)
                    IN IF IsErr(rf.v) THEN rf ELSE IF IsErr(i.v) THEN i ELSE IF IsErr(d.v) THEN d
                       ELSE IF ~IsDict(rf.v) THEN R(ErrV, d.log)
                       ELSE IF ~Hashable(i.v) THEN R(UnH, d.log)
                       ELSE LET v == DGet(rf.v[2], i.v) IN R(IF v[1] = "missing" THEN d.v ELSE v, d.log)
      [] e[1] = "attr" ->
            LET r == Eval(e[2], env, log)
            IN IF IsErr(r.v) THEN r ELSE LET rf == Finish(r.v, r.log) IN IF IsErr(rf.v) THEN rf ELSE R(Member2(rf.v, e[3]), rf.log)
      \* recv?.name / recv?.f(args): null when the receiver is null (nothing else is evaluated), else as the plain form
      [] e[1] = "safeattr" ->
            LET r == Eval(e[2], env, log)
            IN IF IsErr(r.v) THEN r ELSE IF r.v[1] = "n" THEN R(Null, r.log) ELSE Eval(<<"attr", <<"const", r.v>>, e[3]>>, env, r.log)
      [] e[1] = "safemcall" ->
            LET r == Eval(e[2], env, log)
            IN IF IsErr(r.v) THEN r ELSE IF r.v[1] = "n" THEN R(Null, r.log)
               ELSE Eval(<<"mcall", <<"const", r.v>>, e[3], e[4], e[5]>>, env, r.log)
      [] e[1] = "un" ->
            LET r == Eval(e[3], env, log)
            IN IF IsErr(r.v) THEN r
               ELSE IF e[2] = "not" THEN R(B(~Truthy(r.v)), r.log)
               ELSE IF r.v[1] # "i" THEN R(ErrV, r.log)
               ELSE R(I(IF e[2] = "-" THEN 0 - r.v[2] ELSE r.v[2]), r.log)
      [] e[1] = "bin" ->
            IF e[2] = "and" THEN LET l == Eval(e[3], env, log) IN IF IsErr(l.v) \/ ~Truthy(l.v) THEN l ELSE Eval(e[4], env, l.log)
            ELSE IF e[2] = "or" THEN LET l == Eval(e[3], env, log) IN IF IsErr(l.v) \/ Truthy(l.v) THEN l ELSE Eval(e[4], env, l.log)
            ELSE IF e[2] = "->" THEN
                \* the right side is evaluated in the context object on the left
                LET l == Eval(e[3], env, log)
                IN IF IsErr(l.v) THEN l ELSE IF l.v[1] # "ctx" THEN R(ErrV, l.log) ELSE Eval(e[4], l.v[2], l.log)
            ELSE LET l == Eval(e[3], env, log)
                 IN IF IsErr(l.v) THEN l
                    ELSE LET lf == Finish(l.v, l.log)
                             r == Eval(e[4], env, lf.log)
                         IN IF IsErr(lf.v) THEN lf ELSE IF IsErr(r.v) THEN r
                            ELSE LET rf == Finish(r.v, r.log)
                                 IN IF IsErr(rf.v) THEN rf
                                    ELSE IF e[2] \in {"+", "-", "*", "/", "mod"} THEN R(Arith(e[2], lf.v, rf.v), rf.log)
                                    ELSE IF e[2] = "in" THEN (IF IsColl(rf.v) THEN R(B(Member(lf.v, rf.v[2])), rf.log) ELSE R(ErrV, rf.log))
                                    ELSE R(Compare(e[2], lf.v, rf.v), rf.log)
      [] e[1] = "call" ->
            LET f == e[2]
            IN \* probe: tick(id, value) logs and returns its value
               IF f = "tick" THEN
                    LET r == Eval(e[3][2], env, log)
                    IN IF IsErr(r.v) THEN r ELSE R(r.v, Append(r.log, <<e[3][1][2][2], IF r.v[1] \in {"i", "n", "b"} THEN r.v ELSE <<"x">>>>))
               \* context constructs: each writes into a child of the current scope and returns it
               ELSE IF f = "let" THEN
                    LET a == EvalSeq(e[3], env, log, <<>>)
                    IN IF IsErr(a.v) THEN a
                       ELSE LET k == EvalKws(e[4], env, a.log, <<>>)
                            IN IF IsErr(k.v) THEN k
                               ELSE R(<<"ctx", <<ArgFrame(a.v[2]) \o [i \in 1..Len(k.v[2]) |-> <<k.v[2][i][1][2], k.v[2][i][2]>>]>> \o env>>, k.log)
               ELSE IF f = "with" THEN
                    LET a == EvalSeq(e[3], env, log, <<>>) IN IF IsErr(a.v) THEN a ELSE R(<<"ctx", <<ArgFrame(a.v[2])>> \o env>>, a.log)
               ELSE IF f = "def" THEN
                    \* def(name, expr): a function whose body sees the scope def() was called in
                    R(<<"ctx", <<<<<<"fn:" \o e[3][1][2], <<"lam", e[3][2], env>>>>>>>> \o env>>, log)
               ELSE IF f \in {"examine", "selectAllCases"} THEN
                    LET a == EvalSeq(e[3], env, log, <<>>)
                    IN IF IsErr(a.v) THEN a
                       ELSE IF f = "examine" THEN R(L([i \in 1..Len(a.v[2]) |-> B(Truthy(a.v[2][i]))]), a.log)
                       ELSE LET idx == SelectSeq([i \in 1..Len(a.v[2]) |-> i], LAMBDA i : Truthy(a.v[2][i]))
                            IN R(L([k \in 1..Len(idx) |-> I(idx[k] - 1)]), a.log)
               ELSE IF f = "generate" /\ Len(e[3]) \in {3, 4} THEN
                    \* generate(initial, predicate, producer [, selector]): initial, producer(initial), ... while the predicate holds
                    LET i0 == Eval(e[3][1], env, log)
                        pred == <<"lam", e[3][2], env>>
                        prod == <<"lam", e[3][3], env>>
                        RECURSIVE Gen(_, _, _, _)
                        Gen(x, lg, acc, fuel) ==
                            IF fuel = 0 THEN R(<<"e", "endless">>, lg)
                            ELSE LET c == Apply(pred, <<x>>, lg)
                                 IN IF IsErr(c.v) THEN c
                                    ELSE IF ~Truthy(c.v) THEN R(L(acc), c.log)
                                    ELSE LET y == IF Len(e[3]) = 4 THEN Apply(<<"lam", e[3][4], env>>, <<x>>, c.log) ELSE R(x, c.log)
                                         IN IF IsErr(y.v) THEN y
                                            ELSE LET nx == Apply(prod, <<x>>, y.log)
                                                 IN IF IsErr(nx.v) THEN nx ELSE Gen(nx.v, nx.log, Append(acc, y.v), fuel - 1)
                    IN IF IsErr(i0.v) THEN i0 ELSE Gen(i0.v, i0.log, <<>>, 40)
               ELSE IF f = "generateMany" /\ Len(e[3]) \in {2, 3} THEN
                    \* tree traversal: a queue of nodes; producer(node) gives the children (breadth first, or depth first), optionally without repeats
                    LET i0 == Eval(e[3][1], env, log)
                        prod == <<"lam", e[3][2], env>>
                        flag(name) == \E j \in 1..Len(e[4]) : e[4][j][1] = name /\ e[4][j][2] = <<"const", <<"b", 1>>>>
                        RECURSIVE GM(_, _, _, _, _)
                        GM(queue, seen, lg, acc, fuel) ==
                            IF queue = <<>> THEN R(L(acc), lg)
                            ELSE IF fuel = 0 THEN R(<<"e", "endless">>, lg)
                            ELSE LET x == Head(queue)
                                 IN IF flag("decycle") /\ Member(x, seen) THEN GM(Tail(queue), seen, lg, acc, fuel)
                                    ELSE IF flag("decycle") /\ ~Hashable(x) THEN R(UnH, lg)
                                    ELSE LET y == IF Len(e[3]) = 3 THEN Apply(<<"lam", e[3][3], env>>, <<x>>, lg) ELSE R(x, lg)
                                         IN IF IsErr(y.v) THEN y
                                            ELSE LET ch == Apply(prod, <<x>>, y.log)
                                                 IN IF IsErr(ch.v) THEN ch
                                                    ELSE LET cf == Finish(ch.v, ch.log)
                                                         IN IF IsErr(cf.v) THEN cf ELSE IF ~IsColl(cf.v) THEN R(ErrV, cf.log)
                                                            ELSE GM(IF flag("depthFirst") THEN cf.v[2] \o Tail(queue) ELSE Tail(queue) \o cf.v[2],
                                                                    Append(seen, x), cf.log, Append(acc, y.v), fuel - 1)
                    IN IF IsErr(i0.v) THEN i0 ELSE GM(<<i0.v>>, <<>>, i0.log, <<>>, 40)
               ELSE IF f \in {"switch", "selectCase", "coalesce", "switchCase"} THEN
                    (IF f = "coalesce" THEN
                        LET RECURSIVE Co(_, _)
                            Co(es, lg) == IF es = <<>> THEN R(Null, lg)
                                          ELSE LET r == Eval(Head(es), env, lg) IN IF IsErr(r.v) THEN r ELSE IF r.v[1] # "n" THEN r ELSE Co(Tail(es), r.log)
                        IN Co(e[3], log)
                     ELSE IF f = "switch" THEN
                        \* switch(cond1 => v1, ...): first true condition wins; later conditions and all other values are not evaluated
                        LET RECURSIVE Sw(_, _)
                            Sw(ps, lg) == IF ps = <<>> THEN R(Null, lg)
                                          ELSE LET c == Eval(Head(ps)[2], env, lg)
                                               IN IF IsErr(c.v) THEN c ELSE IF Truthy(c.v) THEN Eval(Head(ps)[3], env, c.log) ELSE Sw(Tail(ps), c.log)
                        IN Sw(e[3], log)
                     ELSE IF f = "selectCase" THEN
                        \* index of the first true predicate (the count of predicates if none); later predicates are not evaluated
                        LET RECURSIVE Sc(_, _, _)
                            Sc(es, i, lg) == IF es = <<>> THEN R(I(i), lg)
                                             ELSE LET c == Eval(Head(es), env, lg)
                                                  IN IF IsErr(c.v) THEN c ELSE IF Truthy(c.v) THEN R(I(i), c.log) ELSE Sc(Tail(es), i + 1, c.log)
                        IN Sc(e[3], 0, log)
                     ELSE R(<<"e", "unmodelled">>, log))
               ELSE LET a == EvalSeq(e[3], env, log, <<>>)
                    IN IF IsErr(a.v) THEN a
                       ELSE LET k == EvalKws(e[4], env, a.log, <<>>)
                            IN IF IsErr(k.v) THEN k ELSE CallFn(f, a.v[2], k.v[2], env, k.log)
      [] e[1] = "mcall" ->
            LET r == Eval(e[2], env, log)
                f == e[3]
            \* <set>.distinct(key).len(): which elements survive depends on the set's order, how many does not - the number of
            \* different keys
            IN IF f = "len" /\ e[4] = <<>> /\ e[2][1] = "mcall" /\ e[2][3] = "distinct" /\ Len(e[2][4]) = 1 /\ e[2][5] = <<>>
                  /\ IsSet(Eval(e[2][2], env, log).v) THEN
                    LET s0 == Eval(e[2][2], env, log)
                        m == MapLam(<<"lam", e[2][4][1], env>>, s0.v[2], s0.log, <<>>)
                    IN IF IsErr(m.v) THEN m
                       ELSE IF \E i \in 1..Len(m.v[2]) : ~Hashable(m.v[2][i]) THEN R(UnH, m.log)
                       ELSE R(I(Len(Dedup(m.v[2], <<>>))), m.log)
               \* <lazy select>.accumulate(f [, seed]) consumed through take/limit: accumulate is a generator - nothing is pulled from
               \* its input before the first running total is asked for, and then one element per total (none for the seed itself)
               ELSE IF f \in {"take", "limit"} /\ Len(e[4]) = 1 /\ e[4][1][1] = "const" /\ e[4][1][2][1] = "i" /\ e[4][1][2][2] >= 0 /\ e[5] = <<>>
                       /\ e[2][1] = "mcall" /\ e[2][3] = "accumulate" /\ Len(e[2][4]) \in {1, 2} /\ e[2][5] = <<>>
                       /\ e[2][2][1] = "mcall" /\ e[2][2][3] = "select" /\ Len(e[2][2][4]) = 1 /\ e[2][2][5] = <<>> THEN
                    LET ae == e[2]
                        se == ae[2]
                        src == Eval(se[2], env, log)
                        srcf == IF IsErr(src.v) THEN src ELSE Finish(src.v, src.log)
                        sd == IF Len(ae[4]) = 2 THEN Eval(ae[4][2], env, srcf.log) ELSE R(Null, srcf.log)      \* the seed is an eager argument
                        sel == <<"lam", se[4][1], env>>
                        acc == <<"lam", ae[4][1], env>>
                        want == e[4][1][2][2]
                        RECURSIVE LA(_, _, _, _, _)
                        \* xs: input elements not pulled yet; tot: running total (has: is there one); out: totals handed out so far
                        LA(xs, has, tot, lg, out) ==
                            IF Len(out) = want THEN R(L(out), lg)
                            ELSE IF ~has THEN
                                (IF xs = <<>> THEN R(ErrV, lg)            \* no seed and nothing to start from
                                 ELSE LET x == Apply(sel, <<Head(xs)>>, lg) IN IF IsErr(x.v) THEN x ELSE LA(Tail(xs), TRUE, x.v, x.log, Append(out, x.v)))
                            ELSE IF xs = <<>> THEN R(L(out), lg)
                            ELSE LET x == Apply(sel, <<Head(xs)>>, lg)
                                 IN IF IsErr(x.v) THEN x
                                    ELSE LET t == Apply(acc, <<tot, x.v>>, x.log)
                                         IN IF IsErr(t.v) THEN t ELSE LA(Tail(xs), TRUE, t.v, t.log, Append(out, t.v))
                    IN IF IsErr(srcf.v) THEN srcf ELSE IF ~IsColl(srcf.v) THEN R(ErrV, srcf.log) ELSE IF IsErr(sd.v) THEN sd
                       ELSE IF want = 0 THEN R(L(<<>>), sd.log)
                       ELSE IF Len(ae[4]) = 2 THEN LA(srcf.v[2], TRUE, sd.v, sd.log, <<sd.v>>)
                       ELSE LA(srcf.v[2], FALSE, Null, sd.log, <<>>)
               ELSE IF IsErr(r.v) THEN r
               \* a method of a yaqlized host object (the harness's probe object `hm` returns its positional arguments followed by
               \* the named ones a, b, note): arguments are evaluated once each, positional ones first, then named ones as written
               ELSE IF r.v[1] = "o" /\ f = "hm" THEN
                    LET a == EvalSeq(e[4], env, r.log, <<>>)
                    IN IF IsErr(a.v) THEN a
                       ELSE LET k == EvalKws(e[5], env, a.log, <<>>)
                                HostKw(n) == LET js == {j \in 1..Len(k.v[2]) : k.v[2][j][1][2] = n}
                                             IN IF js = {} THEN <<>> ELSE <<k.v[2][CHOOSE j \in js : TRUE][2]>>
                            IN IF IsErr(k.v) THEN k ELSE R(L(a.v[2] \o HostKw("a") \o HostKw("b") \o HostKw("note")), k.log)
               \* generate(...) consumed through take/first: predicate, selector and producer run only as far as elements are taken -
               \* the producer is not run after the last element handed out
               ELSE IF f \in {"take", "first"} /\ e[2][1] = "call" /\ e[2][2] = "generate" /\ Len(e[2][3]) \in {3, 4} /\ e[2][4] = <<>>
                       /\ ((f = "first" /\ e[4] = <<>>) \/ (f = "take" /\ Len(e[4]) = 1 /\ e[4][1][1] = "const" /\ e[4][1][2][1] = "i" /\ e[4][1][2][2] >= 0)) THEN
                    LET ge == e[2]
                        i0 == Eval(ge[3][1], env, log)
                        pred == <<"lam", ge[3][2], env>>
                        prod == <<"lam", ge[3][3], env>>
                        want == IF f = "first" THEN 1 ELSE e[4][1][2][2]
                        RECURSIVE LG(_, _, _, _)
                        LG(x, lg, acc, fuel) ==
                            IF Len(acc) = want THEN R(L(acc), lg)
                            ELSE IF fuel = 0 THEN R(<<"e", "endless">>, lg)
                            ELSE LET c == Apply(pred, <<x>>, lg)
                                 IN IF IsErr(c.v) THEN c
                                    ELSE IF ~Truthy(c.v) THEN R(L(acc), c.log)
                                    ELSE LET y == IF Len(ge[3]) = 4 THEN Apply(<<"lam", ge[3][4], env>>, <<x>>, c.log) ELSE R(x, c.log)
                                         IN IF IsErr(y.v) THEN y
                                            ELSE IF Len(acc) + 1 = want THEN R(L(Append(acc, y.v)), y.log)
                                            ELSE LET nx == Apply(prod, <<x>>, y.log)
                                                 IN IF IsErr(nx.v) THEN nx ELSE LG(nx.v, nx.log, Append(acc, y.v), fuel - 1)
                        t == IF IsErr(i0.v) THEN i0 ELSE LG(i0.v, i0.log, <<>>, 40)
                    IN IF IsErr(t.v) THEN t
                       ELSE IF f = "take" THEN t
                       ELSE IF t.v[2] # <<>> THEN R(t.v[2][1], t.log) ELSE R(ErrV, t.log)
               \* a lazy select/where consumed through take/limit/first: the lambda runs only for the elements consumed
               \* (any() without a predicate asks for one element, like first())
               ELSE IF f \in {"take", "limit", "first", "any"} /\ e[2][1] = "mcall" /\ e[2][3] \in {"select", "where"} /\ Len(e[2][4]) = 1
                       /\ (f = "first" \/ (f = "any" /\ e[4] = <<>>) \/ (f \in {"take", "limit"} /\ Len(e[4]) = 1 /\ e[4][1][1] = "const" /\ e[4][1][2][1] = "i" /\ e[4][1][2][2] >= 0))
                       /\ Len(e[4]) <= 1 THEN
                    LET src == Eval(e[2][2], env, log)
                        clo == <<"lam", e[2][4][1], env>>
                        k == IF f \in {"first", "any"} THEN 1 ELSE e[4][1][2][2]
                        dflt == IF f = "first" /\ Len(e[4]) = 1 THEN Eval(e[4][1], env, src.log) ELSE R(Null, src.log)
                        RECURSIVE LT(_, _, _, _)
                        LT(xs, kk, lg, acc) ==
                            IF kk = 0 \/ xs = <<>> THEN R(L(acc), lg)
                            ELSE LET a == Apply(clo, <<Head(xs)>>, lg)
                                 IN IF IsErr(a.v) THEN a
                                    ELSE IF e[2][3] = "select" THEN LT(Tail(xs), kk - 1, a.log, Append(acc, a.v))
                                    ELSE IF Truthy(a.v) THEN LT(Tail(xs), kk - 1, a.log, Append(acc, Head(xs)))
                                    ELSE LT(Tail(xs), kk, a.log, acc)
                    IN IF IsErr(src.v) THEN src ELSE IF ~IsColl(src.v) THEN R(<<"e", "unmodelled">>, src.log)
                       ELSE IF IsErr(dflt.v) THEN dflt
                       ELSE LET t == LT(src.v[2], k, dflt.log, <<>>)
                            IN IF IsErr(t.v) THEN t
                               ELSE IF f = "any" THEN R(B(t.v[2] # <<>>), t.log)
                               ELSE IF f # "first" THEN t
                               ELSE IF t.v[2] # <<>> THEN R(t.v[2][1], t.log)
                               ELSE IF Len(e[4]) = 1 THEN R(dflt.v, t.log) ELSE R(ErrV, t.log)
               ELSE IF f = "unpack" THEN
                    LET rf == Finish(r.v, r.log)
                        names == [i \in 1..Len(e[4]) |-> e[4][i][2]]
                    IN IF IsErr(rf.v) THEN rf ELSE IF ~IsColl(rf.v) THEN R(ErrV, rf.log)
                       ELSE IF names = <<>> THEN R(<<"ctx", <<ArgFrame(rf.v[2])>> \o env>>, rf.log)
                       ELSE IF Len(names) # Len(rf.v[2]) THEN R(ErrV, rf.log)
                       ELSE R(<<"ctx", <<[i \in 1..Len(names) |-> <<names[i], rf.v[2][i]>>]>> \o env>>, rf.log)
               ELSE IF f = "switch" THEN
                    \* the legacy (v0.2) method  value.switch(c1 => v1, ...), registered by yaql.legacy contexts only: every case is
                    \* one lazily evaluated argument - condition and value of a case are both evaluated (with $ = value), case by
                    \* case, up to and including the first case whose condition is true; later cases are not evaluated
                    LET RECURSIVE LSw(_, _)
                        LSw(ps, lg) == IF ps = <<>> THEN R(Null, lg)
                                       ELSE IF Head(ps)[1] # "pair" THEN R(<<"e", "unmodelled">>, lg)
                                       ELSE LET fr == <<ArgFrame(<<r.v>>)>> \o env
                                                c == Eval(Head(ps)[2], fr, lg)
                                            IN IF IsErr(c.v) THEN c
                                               ELSE LET v == Eval(Head(ps)[3], fr, c.log)
                                                    IN IF IsErr(v.v) THEN v ELSE IF Truthy(c.v) THEN v ELSE LSw(Tail(ps), v.log)
                    IN LSw(e[4], r.log)
               ELSE IF f = "switchCase" THEN
                    (IF r.v[1] # "i" THEN R(ErrV, r.log)
                     ELSE IF e[4] = <<>> THEN R(Null, r.log)
                     ELSE IF r.v[2] >= 0 /\ r.v[2] < Len(e[4]) THEN Eval(e[4][r.v[2] + 1], env, r.log)
                     ELSE Eval(e[4][Len(e[4])], env, r.log))
               ELSE IF f = "as" THEN
                    \* recv.as(expr => name, ...): each expr is evaluated with $ = recv, the results are named in a new scope
                    LET RECURSIVE As(_, _, _)
                        As(ps, lg, fr) == IF ps = <<>> THEN R(<<"ctx", <<fr>> \o env>>, lg)
                                          ELSE LET v == Eval(Head(ps)[2], <<ArgFrame(<<r.v>>)>> \o env, lg)
                                               IN IF IsErr(v.v) THEN v ELSE As(Tail(ps), v.log, Append(fr, <<Head(ps)[3], v.v>>))
                    IN As(e[4], r.log, ArgFrame(<<r.v>>))
               ELSE LET user == <<"none">>      \* (a def-ined function is a function only: `x.f()` never reaches it, and a library
                                                \*  method of the same name is still the method)
                    IN IF user[1] = "lam" THEN
                            LET a == EvalSeq(e[4], env, r.log, <<>>) IN IF IsErr(a.v) THEN a ELSE Apply(user, <<r.v>> \o a.v[2], a.log)
                       ELSE \* arguments: closures for lambda parameters, values otherwise, left to right
                            LET ne == NormKw(f, e[4], e[5])
                                RECURSIVE Args(_, _, _, _)
                                Args(es, i, lg, acc) ==
                                    IF es = <<>> THEN R(L(acc), lg)
                                    ELSE IF IsLamArg(f, i, Len(ne.pos))
                                         THEN Args(Tail(es), i + 1, lg, Append(acc, <<"lam", Head(es), env>>))
                                    ELSE LET v == Eval(Head(es), env, lg)
                                         IN IF IsErr(v.v) THEN v
                                            ELSE LET vf == Finish(v.v, v.log) IN IF IsErr(vf.v) THEN vf ELSE Args(Tail(es), i + 1, vf.log, Append(acc, vf.v))
                                a == Args(ne.pos, 1, r.log, <<>>)
                            IN IF IsErr(a.v) THEN a
                               ELSE IF \E j \in 1..Len(ne.kws) : \E i \in 1..Len(LamParamNames(f)) : ne.kws[j][1] = LamParamNames(f)[i] THEN R(UnH, a.log)
                               ELSE LET k == EvalKws(ne.kws, env, a.log, <<>>)
                                    IN IF IsErr(k.v) THEN k ELSE Method(f, r.v, a.v[2], k.v[2], k.log)

\* top level: evaluate and finalise (orderings are forced, sets stay sets)
RECURSIVE Fin(_, _)
Fin(v, log) ==
    LET f == Finish(v, log)
    IN IF IsErr(f.v) THEN f
       ELSE IF f.v[1] = "S" /\ \E i \in 1..Len(f.v[2]) : f.v[2][i][1] \in {"l", "d", "S"} THEN R(UnH, f.log)
       ELSE IF f.v[1] = "d" /\ \E i \in 1..Len(f.v[2]) : f.v[2][i][1][1] \in {"l", "d", "S"} THEN R(UnH, f.log)
       ELSE IF f.v[1] = "d" THEN
            LET RECURSIVE EachV(_, _, _)
                EachV(ps, lg, acc) == IF ps = <<>> THEN R(<<"d", acc>>, lg)
                                      ELSE LET x == Fin(Head(ps)[2], lg) IN IF IsErr(x.v) THEN x ELSE EachV(Tail(ps), x.log, Append(acc, <<Head(ps)[1], x.v>>))
            IN EachV(f.v[2], f.log, <<>>)
       ELSE IF f.v[1] = "l" THEN
            LET RECURSIVE Each(_, _, _)
                Each(xs, lg, acc) == IF xs = <<>> THEN R(L(acc), lg)
                                     ELSE LET x == Fin(Head(xs), lg) IN IF IsErr(x.v) THEN x ELSE Each(Tail(xs), x.log, Append(acc, x.v))
            IN Each(f.v[2], f.log, <<>>)
       ELSE f
\* the document is bound to `$` and, for expressions that need it inside lambdas, to `$doc`
Run(ast, data) == LET r == Eval(ast, <<<<<<"1", data>>, <<"doc", data>>>>>>, <<>>) IN IF IsErr(r.v) THEN r ELSE Fin(r.v, r.log)
=============================================================================
