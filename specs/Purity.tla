------------------------------- MODULE Purity -------------------------------
(***************************************************************************)
(* Evaluations and the objects they touch (C09 sequential, C18 concurrent).*)
(*                                                                         *)
(* Objects are owned by the host (input data, the prepared context chain,  *)
(* parsed statements, function and parameter definitions, module state) or *)
(* by the evaluation that created them (child contexts, iterators,         *)
(* ordering objects, memoise buffers).  The ownership discipline:          *)
(*     an evaluation writes only objects it created, plus the variable `$` *)
(*     of the one context it was handed.                                   *)
(* TLC checks that the discipline implies what the properties state:       *)
(* host objects are unchanged and each evaluation's result is what it is   *)
(* when run alone - under every interleaving of the evaluations' steps.    *)
(* Discipline = FALSE adds the rogue step (a write to a host object or to  *)
(* another evaluation's object) and TLC exhibits the interference.         *)
(***************************************************************************)
EXTENDS Naturals, Sequences, FiniteSets, TLC

CONSTANTS
    Evals,       \* evaluation ids (1..n)
    StepChoices, \* set of functions Evals -> number of steps each evaluation takes (one is picked initially)
    HostObjs,    \* host-owned objects
    Discipline,  \* TRUE: only disciplined writes
    Sequential   \* TRUE: evaluations run one after another (C09 histories)

VARIABLES
    Steps,    \* Steps[e]: number of steps evaluation e takes (constant along a behaviour)
    val,      \* current content (a version number) of every host object
    own,      \* ... and of each evaluation's scratch objects
    dollar,   \* the `$` slot of the context handed to each evaluation
    pc,       \* steps taken by each evaluation
    acc,      \* what the evaluation has read so far (its result is a function of this)
    sched     \* history of steps (which evaluation moved)

vars == <<Steps, val, own, dollar, pc, acc, sched>>

Init ==
    /\ Steps \in StepChoices
    /\ val = [o \in HostObjs |-> 0]
    /\ own = [e \in Evals |-> 0]
    /\ dollar = [e \in Evals |-> 0]
    /\ pc = [e \in Evals |-> 0]
    /\ acc = [e \in Evals |-> <<>>]
    /\ sched = <<>>

Running(e) == pc[e] > 0 /\ pc[e] < Steps[e]
MayMove(e) == pc[e] < Steps[e] /\ (Sequential => \A f \in Evals \ {e} : ~Running(f))

\* first step: Statement.evaluate binds `$` in the context it was handed
Bind(e) ==
    /\ MayMove(e) /\ pc[e] = 0
    /\ dollar' = [dollar EXCEPT ![e] = e]
    /\ pc' = [pc EXCEPT ![e] = 1]
    /\ sched' = Append(sched, e)
    /\ UNCHANGED <<Steps, val, own, acc>>

\* a disciplined step: read a host object, write own scratch (child context, iterator state, buffers)
Step(e) ==
    /\ MayMove(e) /\ pc[e] > 0
    /\ \E h \in HostObjs :
          /\ acc' = [acc EXCEPT ![e] = Append(@, <<val[h], own[e], dollar[e]>>)]
          /\ own' = [own EXCEPT ![e] = @ + 1]
    /\ pc' = [pc EXCEPT ![e] = @ + 1]
    /\ sched' = Append(sched, e)
    /\ UNCHANGED <<Steps, dollar, val>>

\* a rogue step: write an object the evaluation does not own
Rogue(e) ==
    /\ ~Discipline
    /\ MayMove(e) /\ pc[e] > 0
    /\ \/ \E o \in HostObjs : val' = [val EXCEPT ![o] = @ + 1] /\ UNCHANGED own
       \/ \E f \in Evals \ {e} : own' = [own EXCEPT ![f] = @ + 1] /\ UNCHANGED val
    /\ pc' = [pc EXCEPT ![e] = @ + 1]
    /\ sched' = Append(sched, e)
    /\ UNCHANGED <<Steps, dollar, acc>>

Next == \E e \in Evals : Bind(e) \/ Step(e) \/ Rogue(e)
Spec == Init /\ [][Next]_vars

AllDone == \A e \in Evals : pc[e] = Steps[e]

\* C09 / C18 P2: host objects are as they were
HostUnchanged == \A h \in HostObjs : val[h] = 0
\* C18 P1 / C09 P4: what an evaluation observed is what it observes when run alone:
\* host objects at version 0, its own scratch counting up from 0, its own `$`
Alone(e, k) == <<0, k - 1, e>>
NonInterference == \A e \in Evals : \A k \in 1..Len(acc[e]) : acc[e][k] = Alone(e, k)

SchedView == <<Steps, val, own, dollar, pc, acc>>
PrintTerminal == IF AllDone THEN PrintT(<<"T", sched, Steps>>) ELSE TRUE
=============================================================================
