----------------------------- MODULE Trace_Parse -----------------------------
(***************************************************************************)
(* C03: parsing is total.  One event per call of YaqlEngine.__call__(text): *)
(*   {id, len, outcome, pos}                                               *)
(*     outcome  "statement" | "lexical" | "grammar" - a returned Statement *)
(*              or a raised YaqlLexicalException / YaqlGrammarException;   *)
(*              anything else is logged as "other:<ExceptionClass>" or     *)
(*              "timeout"                                                  *)
(*     pos      the exception's .position, or -1 when it is None           *)
(* The call is a two-state machine: Called -> Finished(outcome); the only  *)
(* outcomes the specification admits are the three above, and a reported   *)
(* position must index a character of the text.                            *)
(***************************************************************************)
EXTENDS Integers, Sequences, TLC, Json, IOUtils

TraceLog == ndJsonDeserialize(IOEnv.TRACE_FILE)
VARIABLE pos

Admitted == {"statement", "lexical", "grammar"}
Verdict(e) ==
    IF e.outcome = "timeout" THEN "terminates"
    ELSE IF e.outcome \notin Admitted THEN "only-yaql-parsing-errors"
    ELSE IF e.outcome = "statement" /\ e.pos # -1 THEN "statement-has-no-position"
    ELSE IF e.outcome # "statement" /\ e.pos # -1 /\ ~(e.pos >= 0 /\ e.pos < e.len) THEN "position-inside-text"
    ELSE "ok"

Init == pos = 1
Next == /\ pos <= Len(TraceLog)
        /\ pos' = pos + 1
        /\ LET v == Verdict(TraceLog[pos])
           IN IF v = "ok" THEN TRUE ELSE PrintT(<<"REJECT", TraceLog[pos].id, v>>)
TraceSpec == Init /\ [][Next]_pos
TraceAccepted == TLCGet("stats").diameter - 1 = Len(TraceLog)
=============================================================================
