---------------------------- MODULE Trace_Strings ----------------------------
(* Validates recorded evaluations of yaql's string / regex functions against Strings.tla (C19).      *)
(* Event: {id, fn, s, ...arguments..., res}; res is the finalised real result in the model's shapes.  *)
EXTENDS Strings, Json, IOUtils
TraceLog == ndJsonDeserialize(IOEnv.TRACE_FILE)
VARIABLE pos
Verdict(e) ==
    LET x == Expected(e)
    IN IF x = <<"skip">> THEN "skip"
       ELSE IF x = <<"e">> THEN (IF e.res[1] = "e" THEN "ok" ELSE "error-expected")
       ELSE IF e.res[1] = "e" THEN "real-error"
       ELSE IF x[1] = "set" THEN (IF e.res[1] = "set" /\ {e.res[2][i] : i \in 1..Len(e.res[2])} = x[2] THEN "ok" ELSE "value")
       ELSE IF x = e.res THEN "ok" ELSE "value"
Init == pos = 1
Next == /\ pos <= Len(TraceLog)
        /\ pos' = pos + 1
        /\ LET v == Verdict(TraceLog[pos])
           IN IF v = "ok" THEN TRUE
              ELSE IF v = "skip" THEN PrintT(<<"SKIP", TraceLog[pos].id, v>>)
              ELSE PrintT(<<"REJECT", TraceLog[pos].id, v>>)
TraceSpec == Init /\ [][Next]_pos
TraceAccepted == TLCGet("stats").diameter - 1 = Len(TraceLog)
=============================================================================
